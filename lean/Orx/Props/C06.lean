import Orx.KSRun
import Orx.IW.Completed
import Orx.GenThms.Slice
import Orx.GenThms.Vec
import Orx.GenThms.Arr
import Orx.GenThms.Range
import Orx.GenThms.Iter
import Orx.GenThms.Surface
/-! # C06 skip_to_end stops the iteration for everyone, permanently -/
namespace Orx.Props.C06
open Orx Orx.KS

/-- **Known-size kinds**: after the store of `skip_to_end`, every history (any pulls, further skips, queries)
delivers nothing. -/
theorem known_size_skip_final (len : Nat) (as : List Atom) (c : Nat) (hw : NoWrap len as (Atom.skip.next len c)) :
    delivered len as (Atom.skip.next len c) = [] :=
  skip_final len as c hw

/-- `has_more` is `No` after a skip -/
theorem known_size_skip_has_more_no (len c : Nat) : hasMoreOf (lenOf len (Atom.skip.next len c)) = .no := by
  simp [Atom.next, lenOf, hasMoreOf]

/-- the skip does not disturb what was handed out before it: histories with skips anywhere still hand out
pairwise distinct, in-range positions (each segment between skips is a cursor run; after the first skip nothing) -/
theorem known_size_skip_prefix (len : Nat) (as bs : List Atom) (c : Nat) (hns : NoSkip as) (hwa : NoWrap len as c)
    (hwb : NoWrap len bs (Atom.skip.next len (runAtoms len as c))) :
    delivered len as c ++ delivered len bs (Atom.skip.next len (runAtoms len as c))
      = rangeList (pos len c) (pos len (runAtoms len as c)) := by
  rw [skip_final len bs _ hwb, (delivered_eq len as c hns hwa).1]; simp

/-- **Wrapper**: the store of `skip_to_end` sets `completed` … -/
theorem iter_skip_sets_completed (s : IW.Script) (t : Nat) (c : IW.Cfg) (h : (c.th t).pc = .skp) :
    (IW.step s t c).C = true :=
  IW.skip_sets_C s t c h

/-- … after which every thread that starts a pull (or is between pulls), under every schedule, never receives a
position; pulls in flight keep the invariant (`Inv`, `OInv` do not depend on `completed`), so no duplicate, no
wrong index. -/
theorem iter_after_skip_no_delivery (s : IW.Script) (t : Nat) (c : IW.Cfg) (h : (c.th t).pc = .skp)
    (σ : List Nat) (u : Nat) (hq : ((IW.step s t c).th u).pc.quiet = true) :
    IW.outPos ((IW.run s σ (IW.step s t c)).th u) = IW.outPos ((IW.step s t c).th u) :=
  (IW.quiet_run s σ u _ (IW.skip_sets_C s t c h) hq).2

/-- the skipping thread itself is between pulls right after the skip -/
theorem iter_skipper_quiet (s : IW.Script) (t : Nat) (c : IW.Cfg) (h : (c.th t).pc = .skp) :
    ((IW.step s t c).th t).pc.quiet = true := by
  unfold IW.step; simp [h, IW.setTh, IW.ret, IW.Req.isLoop, IW.Pc.quiet]

/-- safety invariants hold in histories with skips: `ReqOk` admits `skip` requests -/
theorem iter_skip_histories_safe (s : IW.Script) (ps : Nat → List IW.Req)
    (hok : ∀ t, ∀ r ∈ ps t, IW.ReqOk r) (σ : List Nat) (hW : (IW.run s σ (IW.init ps)).R < W) :
    IW.Inv s (IW.run s σ (IW.init ps)) ∧ IW.OInv s (IW.run s σ (IW.init ps)) :=
  ⟨IW.inv_reach s ps hok σ hW, IW.oinv_run σ (IW.inv_init s ps hok) (IW.oinv_init s ps) hW⟩

example : IW.ReqOk .skip := Or.inl rfl


/-! ## The source itself (translated on every run) -/
open Orx.RS Orx.Gen Orx.GenThms Orx.KS in
/-- **`skip_to_end` as it is in the source**: one store (slice, range) or swap (vec, array) of exactly the length —
the `Atom.skip` of the model — and the consuming kinds destroy exactly the span `[min(c, len), len)` once -/
theorem source_skip_is_atom_skip (len a b c : Nat) (evs dr) :
    Slice.skip_to_end (slice len) (st c evs dr) = .ok () (st (Atom.skip.next len c) (evs ++ [.st (.ctr 0) .seqcst len]) dr) ∧
    Range.skip_to_end (range a b) (st c evs dr) = .ok () (st (Atom.skip.next (b - a) c) (evs ++ [.st (.ctr 0) .seqcst (b - a)]) dr) ∧
    Vec.skip_to_end (vec len) (st c evs dr) = .ok () (st (Atom.skip.next len c) (evs ++ [.swp (.ctr 0) .acqrel c len]) (dr ++ [(min c len, len)])) ∧
    Arr.skip_to_end len (arr len) (st c evs dr) = .ok () (st (Atom.skip.next len c) (evs ++ [.swp (.ctr 0) .acqrel c len]) (dr ++ [(min c len, len)])) :=
  ⟨slice_early_exit len c evs dr, range_early_exit a b c evs dr, vec_early_exit len c evs dr, arr_early_exit len c evs dr⟩


open Orx.RS Orx.Gen Orx.GenThms in
/-- **`skip_to_end` of the wrapper as in the source**: one `SeqCst` store of `true` into `completed`, nothing else — in
particular neither counter is written (the repaired defect D2 stored `usize::MAX` into the ticket dispenser) -/
theorem source_iter_skip (init : Option Nat) (R Y : Nat) (C : Bool) (evs : List Ev) :
    Iter.skip_to_end (iter init) (ist R Y C evs) = .ok () (ist R Y true (evs ++ [.st .C .seqcst 1])) :=
  iter_skip_to_end init R Y C evs

section SurfaceApi
open Orx.GenThms.Surface Orx.Gen

/-- the whole inherent API: besides `skip_to_end` / `early_exit` nothing stores into a counter, and nothing can undo a skip -/
theorem source_no_operation_rewinds :
    fnsOf "" "AtomicCounter" = [["new", "fetch_and_add", "fetch_and_increment", "current", "store", "swap"]] ∧
    fnsOf "" "ConIterOfSlice" = [["new", "as_slice"]] ∧ fnsOf "" "ConIterOfRange" = [["new", "range"]] ∧
    fnsOf "" "ConIterOfVec" = [["new", "take_one", "take_slice", "split_off_right"]] ∧
    fnsOf "" "ConIterOfArray" = [["new", "take_one", "take_slice", "split_off_right"]] ∧
    fnsOf "" "ConIterOfIter" = [["new", "mut_iter", "progress_yielded_counter", "mark_completed", "complete_on_unwind"]] ∧
    fnsOf "" "CompleteOnUnwind" = [["disarm"]] ∧ fnsOf "" "Taken" = [["new"]] ∧
    fnsOf "" "Cloned" = [["new", "underlying_iter"]] ∧ fnsOf "" "Copied" = [["new", "underlying_iter"]] ∧
    sameSet (implsOf "") ["AtomicCounter", "ConIterOfSlice", "ConIterOfRange", "ConIterOfVec", "ConIterOfArray", "ConIterOfIter",
      "CompleteOnUnwind", "Taken", "Cloned", "Copied", "BufferedIter"] = true ∧
    (surface.filter (fun r => r.tr == "fn")).map (·.fns) = [["fold"], ["for_each", "for_each_with_ids"]] :=
  Orx.GenThms.Surface.the_inherent_api

end SurfaceApi

end Orx.Props.C06
