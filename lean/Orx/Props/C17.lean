import Orx.KSRun
import Orx.IW.Core
import Orx.GenThms.Slice
import Orx.GenThms.Vec
import Orx.GenThms.Arr
import Orx.GenThms.Range
import Orx.GenThms.New
import Orx.GenThms.Own
import Orx.GenThms.ProtoBuf
/-! # C17 Same behaviour in debug and optimized builds; std preconditions respected

The model has no build mode: after the `fix:` commits no arithmetic of the crate can overflow and no std
precondition is at stake (`Vec::from_raw_parts(ptr, len, 0)` is gone). The obligations below are the
arithmetic expressions of the source, each shown to stay inside `usize` on the *whole* input domain, so that
`overflow-checks` / `debug-assertions` cannot change behaviour. The only wrapping operation left is the atomic
`fetch_add`, which wraps identically in both profiles. -/
namespace Orx.Props.C17
open Orx Orx.KS

/-- `begin_idx.saturating_add(n)` never leaves `usize` -/
theorem sat_add_in_range (a b : Nat) (ha : a < W) : satAdd a b < W := by
  unfold satAdd; split
  · assumption
  · decide

/-- slice/vec/array `fetch_n`, `take_slice`: `end_idx - begin_idx` and the slice `[begin..end]` are in bounds -/
theorem chunk_bounds (len c n : Nat) : (pullRange len c n).1 ≤ (pullRange len c n).2 ∧ (pullRange len c n).2 ≤ len := by
  simp only [pullRange]; split <;> omega

/-- range: `begin_idx + start` (begin ≤ len = stop - start) and `start + item_idx` (item < len) do not overflow -/
theorem range_sums_in_range (start stop b : Nat) (hstop : stop < W) (hb : b ≤ stop - start) (hs : start ≤ stop ∨ b = 0)
    (hst : start < W) : b + start < W := by omega

/-- `try_get_len`: `initial_len - current` is only evaluated when `current < initial_len` -/
theorem len_sub_guarded (len c : Nat) : lenOf len c = if c < len then len - c else 0 := rfl

/-- `Taken`: `len - idx` with `idx ≤ len` always (idx only grows while `idx < len`) -/
theorem taken_idx_bounded (len idx : Nat) (h : idx ≤ len) : (if idx < len then idx + 1 else idx) ≤ len := by
  split <;> omega

/-- wrapper: the range `begin..begin.saturating_add(n)` has at most `n` elements and never overflows -/
theorem iters_bounded (r : IW.Req) (b : Nat) (hb : b < W) : IW.iters r b ≤ r.len := by
  unfold IW.iters satAdd; split
  · split
    · omega
    · simp only [MAXW, W] at *; omega
  · omega

/-- the atomic counter wraps the same way in every profile (it is not an overflow-checked `+`) -/
theorem fetch_add_profile_independent (c n : Nat) : wrapAdd c n = (c + n) % W := rfl


/-! ## The source itself (translated on every run), whole input domain

`Generated/Arith.lean` is the crate's arithmetic as it is in `/repo/src` now. A fault of the monad `RS.M` is exactly a
point where debug and optimized builds would differ (`usize` overflow) or a std precondition would be violated (slice
index, `ptr::add`, `Taken::new`, `slice_from_raw_parts_mut`, an assertion). None of the pulling functions can fault. -/
open Orx.RS Orx.Gen Orx.GenThms in
/-- **No pull, skip or length query of a known-size kind can overflow, index out of range or violate an `unsafe`
precondition — for every length, counter value and chunk size** (`len, start, stop < 2^64`; `c`, `n` arbitrary). -/
theorem source_never_faults (len a b n c : Nat) (evs dr) (hl : len < W) (ha : a < W) (hb : b < W) :
    (∃ v s, Slice.fetch_n (slice len) n (st c evs dr) = .ok v s) ∧ (∃ v s, Slice.fetch_one (slice len) (st c evs dr) = .ok v s) ∧
    (∃ v s, Vec.fetch_n (vec len) n (st c evs dr) = .ok v s) ∧ (∃ v s, Vec.fetch_one (vec len) (st c evs dr) = .ok v s) ∧
    (∃ v s, Arr.fetch_n len (arr len) n (st c evs dr) = .ok v s) ∧ (∃ v s, Arr.fetch_one len (arr len) (st c evs dr) = .ok v s) ∧
    (∃ v s, Range.fetch_n (range a b) n (st c evs dr) = .ok v s) ∧ (∃ v s, Range.fetch_one (range a b) (st c evs dr) = .ok v s) ∧
    (∃ v s, BufferedIterSlice.next ⟨⟨n⟩, slice len⟩ (st c evs dr) = .ok v s) ∧
    (∃ v s, BufferedIterVec.next ⟨⟨n⟩, vec len⟩ (st c evs dr) = .ok v s) ∧
    (∃ v s, BufferedIterArr.next len ⟨⟨n⟩, arr len⟩ (st c evs dr) = .ok v s) ∧
    (∃ v s, BufferedIterRange.next ⟨⟨n⟩, range a b⟩ (st c evs dr) = .ok v s) ∧
    (∃ v s, Vec.early_exit (vec len) (st c evs dr) = .ok v s) ∧ (∃ v s, Arr.early_exit len (arr len) (st c evs dr) = .ok v s) ∧
    (∃ v s, Slice.try_get_len (slice len) (st c evs dr) = .ok v s) ∧ (∃ v s, Range.try_get_len (range a b) (st c evs dr) = .ok v s) ∧
    (∃ v s, Range.into_seq_iter (range a b) (st c evs dr) = .ok v s) :=
  ⟨⟨_, _, slice_fetch_n len n c evs dr⟩, ⟨_, _, slice_fetch_one len c evs dr⟩,
   ⟨_, _, vec_fetch_n len n c evs dr hl⟩, ⟨_, _, vec_fetch_one len c evs dr⟩,
   ⟨_, _, arr_fetch_n len n c evs dr hl⟩, ⟨_, _, arr_fetch_one len c evs dr⟩,
   ⟨_, _, range_fetch_n a b n c evs dr ha hb⟩, ⟨_, _, range_fetch_one a b c evs dr ha hb⟩,
   ⟨_, _, slice_buffered_next len n c evs dr⟩, ⟨_, _, vec_buffered_next len n c evs dr hl⟩,
   ⟨_, _, arr_buffered_next len n c evs dr hl⟩, ⟨_, _, range_buffered_next a b n c evs dr ha hb⟩,
   ⟨_, _, vec_early_exit len c evs dr⟩, ⟨_, _, arr_early_exit len c evs dr⟩,
   ⟨_, _, slice_try_get_len len c evs dr⟩, ⟨_, _, range_try_get_len a b c evs dr⟩,
   ⟨_, _, range_into_seq_iter a b c evs dr ha hb⟩⟩

open Orx.RS Orx.Gen Orx.GenThms in
/-- the only panic left is the documented one: `BufferedIter::new` with chunk size 0 -/
theorem source_only_documented_panic (s : St) : BufferedIterNew.new ⟨0⟩ () s = .fail .assertion :=
  buffered_new_zero_panics s


/-! ## The owner-side code of the consuming kinds (`Generated/Own.lean`): no std precondition is violated -/
section SourceOwn
open Orx.RSO Orx.GenO Orx.GenThms.Own

/-- a result of the ownership monad that is not a fault (it returns, or it unwinds from an injected destructor panic) -/
def NoFault {α : Type} (r : Res α) : Prop := ∀ f, r ≠ .fail f

/-- **The owner-side code never violates a documented precondition of std, never overflows and never fails an assertion** —
`ptr.add` stays inside the allocation, `ptr.read` / `drop_in_place` only touch slots that still hold an element,
`set_len(n)` has `n ≤ capacity`, `split_off(at)` has `at ≤ len`, `ManuallyDrop::take` finds a value, `debug_assert!`s hold,
`len - begin` does not underflow — for every length, capacity, counter value (also overshot) and injected destructor panic:
`Drop`, `into_seq_iter`, `skip_to_end`, single and chunk pulls of `ConIterOfVec` and `ConIterOfArray`, and every way of
consuming a chunk (`Taken::next` / `Drop for Taken`). The debug-only checks (`debug_assert!`, overflow checks, std's
`ub_checks`) are faults of this monad, so "no fault" is also "debug and release builds agree". -/
theorem source_owner_code_never_faults (len cap f : Nat) (o : OSt) (ρ' : Type) (hw : cap < W)
    (hv : VecCell o len cap) (hu : Untouched o (min o.ctr len) len) (n j : Nat) :
    NoFault ((Vec.drop f (vecS len) : PF ρ' _) o) ∧ NoFault ((Vec.into_seq_iter f (vecS len) : PF ρ' _) o) ∧
    NoFault ((Vec.early_exit f (vecS len) : PF ρ' _) o) ∧ NoFault ((Vec.fetch_n f (vecS len) n : PF ρ' _) o) ∧
    NoFault ((Vec.fetch_one f (vecS len) : PF ρ' _) o) ∧
    (∀ b l, b + l ≤ cap → Untouched o b (b + l) → NoFault ((consumeTaken f j (taken cap b l 0) : PF ρ' _) o)) := by
  have hlw : len < W := by have := hv.2; omega
  refine ⟨?_, ?_, ?_, ?_, ?_, ?_⟩
  · rw [vec_drop len len cap f o ρ' hv hu]; intro e; split <;> simp
  · rw [vec_into_seq_iter len cap f o ρ' hv hu]; intro e; simp
  · rw [vec_early_exit len cap f o ρ' hv hu]; intro e; split <;> simp
  · rw [vec_fetch_n len cap n f o ρ' hv hlw]; intro e; simp
  · rw [vec_fetch_one len cap f o ρ' hv (fun h p h1 h2 => hu p (by omega) (by omega))]; intro e; split <;> simp
  · intro b l hb hub
    rw [consume_taken cap b l f ρ' hb hw j 0 o (Nat.zero_le _) (by simpa using hub)]; intro e; split <;> simp

theorem source_array_owner_code_never_faults (N f : Nat) (o : OSt) (ρ' : Type) (hw : N < W)
    (hv : ArrCell o N) (hu : Untouched o (min o.ctr N) N) (n : Nat) :
    NoFault ((Arr.drop f N arrS : PF ρ' _) o) ∧ NoFault ((Arr.into_seq_iter f N arrS : PF ρ' _) o) ∧
    NoFault ((Arr.early_exit f N arrS : PF ρ' _) o) ∧ NoFault ((Arr.fetch_n f N arrS n : PF ρ' _) o) ∧
    NoFault ((Arr.fetch_one f N arrS : PF ρ' _) o) := by
  refine ⟨?_, ?_, ?_, ?_, ?_⟩
  · rw [arr_drop N f o ρ' hv hu]; intro e; split <;> simp
  · rw [arr_into_seq_iter N f o ρ' hv hu]; intro e; simp
  · rw [arr_early_exit N f o ρ' hv hu]; intro e; split <;> simp
  · rw [arr_fetch_n N n f o ρ' hv hw]; intro e; simp
  · rw [arr_fetch_one N f o ρ' hv (fun h p h1 h2 => hu p (by omega) (by omega))]; intro e; split <;> simp

/-- **std's contract of `ExactSizeIterator` is respected by the owning chunk iterator** (`Taken`, chunks of a consumed Vec /
array): `size_hint` is `(len - idx, Some(len - idx))`, exactly what is left -/
theorem source_taken_size_hint_is_exact (cap b len idx f : Nat) (s : OSt) (ρ' : Type) (hi : idx ≤ len) :
    (Taken.size_hint f (taken cap b len idx) : PF ρ' _) s = .ok (.norm (len - idx, some (len - idx))) s :=
  taken_size_hint cap b len idx f s ρ' hi

end SourceOwn

/-- **… and by the wrapper's chunk iterator** (`BufferedIter<'a, T>` of `buffered/iter.rs`): `size_hint` is
`(initial_len - current_idx, Some(..))` — what `len()` reports (`Props/C03.source_chunk_len_is_what_is_left`). The pinned crate
kept `Iterator`'s default `(0, None)` here, so that `chunk.values.take(2).len()` panicked in every build profile: defect D16,
repaired by `bfb3855` -/
theorem source_wrapper_chunk_size_hint_is_exact {ρ' : Type} (k : Nat) (it : RSP.BufferedIter) (h : it.current_idx ≤ it.initial_len) :
    (GenP.ChunkIt.size_hint k it : RSP.PF ρ' _) = .ret (.norm (it.initial_len - it.current_idx, some (it.initial_len - it.current_idx))) ∧
    (GenP.ChunkIt.len k it : RSP.PF ρ' _) = .ret (.norm (it.initial_len - it.current_idx)) :=
  ⟨GenThms.Proto.chunk_size_hint k it h, GenThms.Proto.chunk_len k it h⟩

end Orx.Props.C17
