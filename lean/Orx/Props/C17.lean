import Orx.KSRun
import Orx.IW.Core
/-! # C17 Same behaviour in debug and optimized builds; std preconditions respected

The model has no build mode: after the `fix:` commits no arithmetic of the crate can overflow and no std
precondition is at stake (`Vec::from_raw_parts(ptr, len, 0)` is gone). The obligations below are the
arithmetic expressions of the source, each shown to stay inside `usize` on the *whole* input domain, so that
`overflow-checks` / `debug-assertions` cannot change behaviour. The only wrapping operation left is the atomic
`fetch_add`, which wraps identically in both profiles. -/
namespace Orx.Props.C17
open Orx Orx.KS

/-- `begin_idx.saturating_add(n)` never leaves `usize` -/
theorem sat_add_in_range (a b : Nat) (ha : a < W) : satAdd a b < W := by
  unfold satAdd; split
  · assumption
  · decide

/-- slice/vec/array `fetch_n`, `take_slice`: `end_idx - begin_idx` and the slice `[begin..end]` are in bounds -/
theorem chunk_bounds (len c n : Nat) : (pullRange len c n).1 ≤ (pullRange len c n).2 ∧ (pullRange len c n).2 ≤ len := by
  simp only [pullRange]; split <;> omega

/-- range: `begin_idx + start` (begin ≤ len = stop - start) and `start + item_idx` (item < len) do not overflow -/
theorem range_sums_in_range (start stop b : Nat) (hstop : stop < W) (hb : b ≤ stop - start) (hs : start ≤ stop ∨ b = 0)
    (hst : start < W) : b + start < W := by omega

/-- `try_get_len`: `initial_len - current` is only evaluated when `current < initial_len` -/
theorem len_sub_guarded (len c : Nat) : lenOf len c = if c < len then len - c else 0 := rfl

/-- `Taken`: `len - idx` with `idx ≤ len` always (idx only grows while `idx < len`) -/
theorem taken_idx_bounded (len idx : Nat) (h : idx ≤ len) : (if idx < len then idx + 1 else idx) ≤ len := by
  split <;> omega

/-- wrapper: the range `begin..begin.saturating_add(n)` has at most `n` elements and never overflows -/
theorem iters_bounded (r : IW.Req) (b : Nat) (hb : b < W) : IW.iters r b ≤ r.len := by
  unfold IW.iters satAdd; split
  · split
    · omega
    · simp only [MAXW, W] at *; omega
  · omega

/-- the atomic counter wraps the same way in every profile (it is not an overflow-checked `+`) -/
theorem fetch_add_profile_independent (c n : Nat) : wrapAdd c n = (c + n) % W := rfl

end Orx.Props.C17
