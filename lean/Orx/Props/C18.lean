import Orx.IW.Outs
import Orx.IW.Completed
import Orx.IW.Progress
import Orx.KSLedger
import Orx.GenThms.Own
/-! # C18 Panic containment: a panicking pull does not hang or corrupt others -/
namespace Orx.Props.C18
open Orx Orx.IW

/-- **Safety survives panics.** `Fused` and `ReqOk` say nothing about panics: the wrapped iterator may panic at
any call `k`. In every reachable configuration — every such iterator, all programs, every schedule — the
invariant holds: the panicked thread keeps its ticket (pc `dead`), nobody else can enter the critical section, … -/
theorem panic_keeps_mutual_exclusion (s : Script) (ps : Nat → List Req) (hok : ∀ t, ∀ r ∈ ps t, ReqOk r)
    (σ : List Nat) (hW : (run s σ (init ps)).R < W) (t u : Nat) (htu : t ≠ u)
    (ht : ((run s σ (init ps)).th t).pc.inCS = true) (hu : ((run s σ (init ps)).th u).pc.inCS = true) : False :=
  mutex (inv_reach s ps hok σ hW) t u htu ht hu

/-- … and no position is delivered twice, to the panicking thread or to anybody else. -/
theorem panic_no_duplicate (s : Script) (ps : Nat → List Req) (hok : ∀ t, ∀ r ∈ ps t, ReqOk r)
    (σ : List Nat) (hW : (run s σ (init ps)).R < W) :
    (∀ t, ((run s σ (init ps)).th t).outs.Pairwise fun a b => ∀ p ∈ a.pos, ∀ q ∈ b.pos, p < q) ∧
    (∀ t u, t ≠ u → ∀ o ∈ ((run s σ (init ps)).th t).outs, ∀ o' ∈ ((run s σ (init ps)).th u).outs,
        ∀ p ∈ o.pos, ∀ q ∈ o'.pos, p ≠ q) :=
  let h := oinv_run σ (inv_init s ps hok) (oinv_init s ps) hW
  ⟨h.sorted, h.disj⟩

/-- a script that panics at call 1 is admissible for these theorems (non-vacuity) -/
def panicAt1 : Script := fun i => if i = 0 then .some 7 else if i = 1 then .panic else .none
example : Fused panicAt1 := by
  intro i j hij hj
  unfold panicAt1 at *
  by_cases h0 : j = 0
  · have : i = 0 := by omega
    simp [this, IsSome]
  · simp [h0] at hj; split at hj <;> simp [IsSome] at hj

/-- a panic outside the critical section (a closure, a `clone`) happens when the protocol state of the thread is
already published: a thread that is between pulls holds no ticket, so it blocks nobody -/
theorem panic_outside_cs_holds_nothing (pc : Pc) (h : pc.quiet = true) (hp : ∀ r b, pc ≠ .pre r b) : pc.ticket = none := by
  cases pc <;> simp [Pc.quiet, Pc.ticket] at *

/-- **No hang after a panic (all schedules).** Every reachable configuration — every fused wrapped iterator that
may panic at any call, all programs, every interleaving — satisfies: if some thread still has work, some
working thread is not waiting. A thread that unwinds out of `next()` leaves `completed` set behind (the unwind
guard, `fix:` commit for D13), so every waiter's next check of `completed` ends its wait, and every later pull
reports the end. -/
theorem panic_no_hang (s : Script) (ps : Nat → List Req) (hok : ∀ t, ∀ r ∈ ps t, ReqOk r)
    (σ : List Nat) (hW : (run s σ (init ps)).R < W) (t0 : Nat) (hb : Busy (run s σ (init ps)) t0) :
    ∃ t, Busy (run s σ (init ps)) t ∧ ¬ Spinning (run s σ (init ps)) t := by
  obtain ⟨hi, hc, hd⟩ := cover_run σ (inv_init s ps hok) (cover_init ps) (by intro t b n h; simp [init] at h) hW
  exact deadlock_free hi hc hd t0 hb

/-- once the guard has stored `completed`, nobody spins any more -/
theorem after_unwind_nobody_spins (c : Cfg) (hC : c.C = true) (t : Nat) : ¬ Spinning c t := by
  rintro ⟨h, _⟩; rw [hC] at h; exact absurd h (by simp)

/-- the unwinding thread stores `completed` with its next step -/
theorem unwind_sets_completed (s : Script) (t : Nat) (c : Cfg) (b n : Nat) (h : (c.th t).pc = .unw b n) :
    (step s t c).C = true ∧ ((step s t c).th t).pc = .dead b n := by
  unfold step; simp [h, setTh]

def twoNext : Nat → List Req := fun t => if t < 2 then [.single false, .single false] else []

/-- the schedule on which the unrepaired code hung (finding D13, fixed): thread 0 panics inside its second pull
while thread 1 holds the next ticket. Now thread 0's guard sets `completed`, and thread 1's pull ends: it reports
the end and so does its next pull. -/
theorem C18_fixed_witness_no_hang :
    let c := run panicAt1 [0,0,0,0,0,0,0,0, 0,0,0,0,0,0,0,0, 1,1,1, 1,1,1] (init twoNext)
    (c.th 0).pc = .dead 1 1 ∧ c.C = true ∧ (c.th 1).pc = .idle ∧ (c.th 1).todo = [] ∧
    (c.th 1).outs = [.fin, .fin] := by decide

/-- **A panicking closure and the ownership ledger (vec, array).** The programs of `KS.exactly_once_all_schedules`
may contain `for_each`/`enumerate_for_each` loops whose closure panics at any invocation `k` (`Op.foreach n (some k)`):
the panicking thread's chunk rest is destroyed by the unwinding chunk iterator, the other threads go on, and after
the owner's `Drop`/`into_seq_iter` every element has still been moved out or destroyed exactly once. -/
theorem closure_panic_exactly_once (s : KSrc) (hown : s.owning = true) (progs : Nat → List SOp)
    (hp : ∀ t, ∀ o ∈ progs t, KS.OwnProg o) (σ : List Nat) (op : OwnerOp) (p : Nat)
    (hw : KS.NoWrap s.len (KS.atomsOf (KS.run s σ (KS.init s progs)).hist 0) 0) :
    ((KS.owner s (KS.run s σ (KS.init s progs)) op).1.mv ++ (KS.owner s (KS.run s σ (KS.init s progs)) op).1.dr).count p
      = if p < s.len then 1 else 0 :=
  KS.exactly_once_all_schedules s hown progs hp σ op p hw

/-- the panicking step itself: a closure panic at invocation `k` of a chunk kills the thread (`dead`), and the
positions it adds to moved-out/destroyed are exactly the chunk it pulled -/
example : let s : KSrc := { kind := .vec, vals := [7, 8, 9, 10] }
    let c := KS.run s [0, 0] (KS.init s fun t => if t = 0 then [⟨0, .foreach 3 (some 1)⟩] else [])
    (c.th 0).pc = .dead ∧ c.mv = [0, 1] ∧ c.dr = [2] := by decide


/-! ## A panicking destructor in the owner-side code as in the source (`Generated/Own.lean`) -/
section SourceOwn
open Orx.RSO Orx.GenO Orx.GenThms.Own

/-- **an element destructor that panics inside the crate's own destruction code does not stop the destruction**: whichever
of the remaining elements' destructors panics (`dpanic = some k`, any `k`), `Drop for Taken` (an unconsumed chunk),
`skip_to_end` and `Drop for ConIterOfVec` still destroy **every** element they are responsible for, exactly once, before the
call unwinds; and the unwinding `Drop` has released the vector's buffer (the state reached is the same as without a panic) -/
theorem source_destructor_panic_destroys_all (len cap f k : Nat) (o : OSt) (ρ' : Type) (hv : VecCell o len cap)
    (hu : Untouched o (min o.ctr len) len) (hk : o.dpanic = some k) (hlt : k < len - min o.ctr len) :
    (Vec.drop f (vecS len) : PF ρ' _) o = .unwind (afterVecDrop o len cap) ∧
    (afterVecDrop o len cap).dr = o.dr ++ RSO.rangeList (min o.ctr len) len ∧
    (afterVecDrop o len cap).heap = o.heap ++ (if 0 < cap then [.free 0] else []) ∧
    (Vec.early_exit f (vecS len) : PF ρ' _) o = .unwind (afterSkip o len) ∧
    (afterSkip o len).dr = o.dr ++ RSO.rangeList (min o.ctr len) len := by
  have hh : dpHit o.dpanic (len - min o.ctr len) = true := by simp [dpHit, hk, hlt]
  refine ⟨?_, rfl, rfl, ?_, rfl⟩
  · rw [vec_drop len len cap f o ρ' hv hu]; simp [hh]
  · rw [vec_early_exit len cap f o ρ' hv hu]; simp [hh]

/-- the same for a chunk that is dropped with elements left -/
theorem source_chunk_drop_panic_destroys_all (cap b len idx f k : Nat) (o : OSt) (ρ' : Type) (hi : idx ≤ len) (hc : b + len ≤ cap)
    (hu : Untouched o (b + idx) (b + len)) (hk : o.dpanic = some k) (hlt : k < len - idx) :
    (Taken.drop f (taken cap b len idx) : PF ρ' _) o = .unwind (afterTakenDrop o b len idx) ∧
    (afterTakenDrop o b len idx).dr = o.dr ++ RSO.rangeList (b + idx) (b + len) := by
  have hh : dpHit o.dpanic (len - idx) = true := by simp [dpHit, hk, hlt]
  refine ⟨?_, rfl⟩
  rw [taken_drop cap b len idx f o ρ' hi hc hu]; simp [hh]

end SourceOwn

end Orx.Props.C18
