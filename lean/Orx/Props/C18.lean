import Orx.IW.Outs
import Orx.IW.Completed
/-! # C18 Panic containment: a panicking pull does not hang or corrupt others -/
namespace Orx.Props.C18
open Orx Orx.IW

/-- **Safety survives panics.** `Fused` and `ReqOk` say nothing about panics: the wrapped iterator may panic at
any call `k`. In every reachable configuration — every such iterator, all programs, every schedule — the
invariant holds: the panicked thread keeps its ticket (pc `dead`), nobody else can enter the critical section, … -/
theorem panic_keeps_mutual_exclusion (s : Script) (hf : Fused s) (ps : Nat → List Req) (hok : ∀ t, ∀ r ∈ ps t, ReqOk r)
    (σ : List Nat) (hW : (run s σ (init ps)).R < W) (t u : Nat) (htu : t ≠ u)
    (ht : ((run s σ (init ps)).th t).pc.inCS = true) (hu : ((run s σ (init ps)).th u).pc.inCS = true) : False :=
  mutex (inv_reach s hf ps hok σ hW) t u htu ht hu

/-- … and no position is delivered twice, to the panicking thread or to anybody else. -/
theorem panic_no_duplicate (s : Script) (hf : Fused s) (ps : Nat → List Req) (hok : ∀ t, ∀ r ∈ ps t, ReqOk r)
    (σ : List Nat) (hW : (run s σ (init ps)).R < W) :
    (∀ t, ((run s σ (init ps)).th t).outs.Pairwise fun a b => ∀ p ∈ a.pos, ∀ q ∈ b.pos, p < q) ∧
    (∀ t u, t ≠ u → ∀ o ∈ ((run s σ (init ps)).th t).outs, ∀ o' ∈ ((run s σ (init ps)).th u).outs,
        ∀ p ∈ o.pos, ∀ q ∈ o'.pos, p ≠ q) :=
  let h := oinv_run hf σ (inv_init s ps hok) (oinv_init s ps) hW
  ⟨h.sorted, h.disj⟩

/-- a script that panics at call 1 is admissible for these theorems (non-vacuity) -/
def panicAt1 : Script := fun i => if i = 0 then .some 7 else if i = 1 then .panic else .none
example : Fused panicAt1 := by
  intro i j hij hj
  unfold panicAt1 at *
  by_cases h0 : j = 0
  · have : i = 0 := by omega
    simp [this, IsSome]
  · simp [h0] at hj; split at hj <;> simp [IsSome] at hj

/-- a panic outside the critical section (a closure, a `clone`) happens when the protocol state of the thread is
already published: a thread that is between pulls holds no ticket, so it blocks nobody -/
theorem panic_outside_cs_holds_nothing (pc : Pc) (h : pc.quiet = true) (hp : ∀ r b, pc ≠ .pre r b) : pc.ticket = none := by
  cases pc <;> simp [Pc.quiet, Pc.ticket] at *

def twoNext : Nat → List Req := fun t => if t < 2 then [.single false, .single false] else []

/-- **Finding D13 (open)**: the wrapped iterator panics inside thread 0's second pull; thread 1's pull
holds the next ticket and spins forever: its two spin steps (`yielded.load`, `completed.load`) return to the same
state, `completed` is never set, and the dead thread never publishes. -/
theorem C18_finding_hang_after_iter_panic :
    let c := run panicAt1 [0,0,0,0,0,0,0, 0,0,0,0,0,0, 1,1,1] (init twoNext)
    (c.th 0).pc = .dead 1 1 ∧ (c.th 1).pc = .wait (.single false) 2 ∧ c.Y = 1 ∧ c.C = false ∧
    ((step panicAt1 1 (step panicAt1 1 c)).th 1).pc = (c.th 1).pc ∧ (step panicAt1 1 (step panicAt1 1 c)).Y = c.Y ∧
    (step panicAt1 1 (step panicAt1 1 c)).C = c.C := by decide

end Orx.Props.C18
