import Orx.KSRun
import Orx.GenThms.Adapt
import Orx.GenThms.ProtoAdapt
import Orx.GenThms.Surface
/-! # C13 cloned() / copied() adaptors are transparent -/
namespace Orx.Props.C13
open Orx Orx.KS

/-- the same source seen through an adaptor -/
def withAdapt (s : KSrc) (a : Adapt) : KSrc := { s with adapt := a }

@[simp] theorem withAdapt_len (s : KSrc) (a : Adapt) : (withAdapt s a).len = s.len := by
  simp [withAdapt, KSrc.len]
@[simp] theorem withAdapt_valAt (s : KSrc) (a : Adapt) (i : Nat) : (withAdapt s a).valAt i = s.valAt i := by
  simp [withAdapt, KSrc.valAt]
@[simp] theorem withAdapt_owning (s : KSrc) (a : Adapt) : (withAdapt s a).owning = s.owning := by
  simp [withAdapt, KSrc.owning]

/-- events that are not `clone` lines -/
def notClone : Ev → Bool
  | .clone _ => false
  | _ => true

theorem cloneEvs_filtered (s : KSrc) (l : List Nat) : (cloneEvs s l).filter notClone = [] := by
  unfold cloneEvs; split <;> simp [notClone]

theorem dropEvs_adapt (s : KSrc) (a : Adapt) (l : List Nat) : dropEvs (withAdapt s a) l = dropEvs s l := by
  simp [dropEvs]

/-- the closure sees the same elements, indices, visit counts, sums and panics through the adaptor -/
theorem visitAll_adapt (s : KSrc) (a : Adapt) (wi : Bool) (pa : Option Nat) (ps : List Nat) (v sm : Nat) (acc acc' : List Ev)
    (hacc : acc'.filter notClone = acc.filter notClone) :
    ((visitAll (withAdapt s a) wi pa ps v sm acc').1.filter notClone = (visitAll s wi pa ps v sm acc).1.filter notClone) ∧
    (visitAll (withAdapt s a) wi pa ps v sm acc').2 = (visitAll s wi pa ps v sm acc).2 := by
  induction ps generalizing v sm acc acc' with
  | nil => simp [visitAll, hacc]
  | cons p ps ih =>
    simp only [visitAll, withAdapt_valAt]
    have h' : (acc' ++ cloneEvs (withAdapt s a) [p] ++ [Ev.visit (if wi = true then some p else none) (s.valAt p)]).filter notClone
        = (acc ++ cloneEvs s [p] ++ [Ev.visit (if wi = true then some p else none) (s.valAt p)]).filter notClone := by
      simp [List.filter_append, cloneEvs_filtered, hacc]
    split
    · exact ⟨h', rfl⟩
    · exact ih _ _ _ _ h'

/-- **Transparency of the atomic behaviour**: the access a step performs, the counters, the history and the
hand-out log do not depend on the adaptor at all — same indices, same chunk boundaries, same remaining lengths,
same end and skip behaviour, operation by operation. -/
theorem adaptor_same_access (s : KSrc) (a : Adapt) (t : Nat) (c : Cfg) :
    (step (withAdapt s a) t c).1.hist = (step s t c).1.hist ∧ (step (withAdapt s a) t c).1.del = (step s t c).1.del := by
  unfold step
  split <;> simp [stepRest_hist, stepRest_del]

/-- the adaptor never moves or drops a source element: the machinery's drop lines are the underlying iterator's -/
theorem adaptor_never_drops_source (s : KSrc) (a : Adapt) (l : List Nat) (h : s.owning = false) :
    dropEvs (withAdapt s a) l = [] := by
  simp [dropEvs, h]

/-- `into_seq_iter` through the adaptor yields the same remainder -/
theorem adaptor_same_remainder (s : KSrc) (a : Adapt) (c : Cfg) (kk : Option Nat) :
    ((owner (withAdapt s a) c (.intoseq kk)).2.filter notClone) = ((owner s c (.intoseq kk)).2.filter notClone) := by
  unfold owner
  simp only [withAdapt_len, withAdapt_valAt, withAdapt_owning, dropEvs_adapt]
  have hk : (withAdapt s a).kind = s.kind := rfl
  rw [hk]
  have hv : (withAdapt s a).valAt = s.valAt := by funext i; simp
  cases s.kind <;> simp [List.filter_append, List.filter_cons, cloneEvs_filtered, hv]


/-! ## The source itself (translated on every run): `src/iter/cloned.rs`, `src/iter/copied.rs`, `buffered/*_buffered_chunk.rs` -/
open Orx.RS Orx.Gen Orx.GenThms in
/-- **Every function of the adaptors is the function of the underlying iterator**: the same atomic access on the same
counter, the same begin index, positions, remaining length, end and skip behaviour — for every length, counter value
and chunk size. `cloned()` clones exactly the delivered element of a single pull (chunks are cloned lazily by their
consumer), `copied()` clones nothing, and neither destroys or moves anything (`drops` is untouched). -/
theorem source_adaptors_transparent (len n c : Nat) (evs dr) :
    Cloned.progress_and_get_begin_idx (cl len) n = Slice.progress_and_get_begin_idx (slice len) n ∧
    Copied.progress_and_get_begin_idx (cl len) n = Slice.progress_and_get_begin_idx (slice len) n ∧
    Cloned.fetch_n (cl len) n (st c evs dr) = Slice.fetch_n (slice len) n (st c evs dr) ∧
    Copied.fetch_n (cl len) n (st c evs dr) = Slice.fetch_n (slice len) n (st c evs dr) ∧
    Cloned.fetch_one (cl len) (st c evs dr) =
      .ok (if c < len then some ⟨c, c⟩ else none) { st (wrapAdd c 1) (evs ++ [faa c 1]) dr with clones := if c < len then [c] else [] } ∧
    Copied.fetch_one (cl len) (st c evs dr) = Slice.fetch_one (slice len) (st c evs dr) ∧
    BufferedIterCloned.next ⟨⟨⟨n⟩⟩, cl len⟩ (st c evs dr) = BufferedIterSlice.next ⟨⟨n⟩, slice len⟩ (st c evs dr) ∧
    BufferedIterCopied.next ⟨⟨⟨n⟩⟩, cl len⟩ (st c evs dr) = BufferedIterSlice.next ⟨⟨n⟩, slice len⟩ (st c evs dr) ∧
    Cloned.skip_to_end (cl len) = Slice.skip_to_end (slice len) ∧ Copied.skip_to_end (cl len) = Slice.skip_to_end (slice len) ∧
    Cloned.try_get_len (cl len) = Slice.try_get_len (slice len) ∧ Copied.try_get_len (cl len) = Slice.try_get_len (slice len) ∧
    Cloned.into_seq_iter (cl len) (st c evs dr) = Slice.into_seq_iter (slice len) (st c evs dr) ∧
    Copied.into_seq_iter (cl len) (st c evs dr) = Slice.into_seq_iter (slice len) (st c evs dr) :=
  ⟨cloned_progress len n, copied_progress len n, cloned_fetch_n len n c evs dr, copied_fetch_n len n c evs dr,
   cloned_fetch_one len c evs dr, copied_fetch_one len c evs dr, cloned_buffered_next len n c evs dr, copied_buffered_next len n c evs dr,
   cloned_skip_to_end len, copied_skip_to_end len, cloned_try_get_len len, copied_try_get_len len,
   cloned_into_seq_iter len c evs dr, copied_into_seq_iter len c evs dr⟩


/-! ## The adaptors over a wrapped iterator of references, as in the source (`Generated/ProtoIter.lean`) -/
section SourceWrapper
open Orx.RSP Orx.GenP Orx.GenThms.Proto

/-- **`cloned()` / `copied()` over the wrapper of an arbitrary iterator are transparent at the level of program trees**: every
translated function of the adaptor **equals** the wrapper's function — the same atomic accesses with the same orderings in the
same order, the same polls of the wrapped iterator, the same indices, chunk boundaries, values (positions), end and skip
behaviour, whatever the other threads do (every fuel, every environment). `fetch_one` is the trait's default method
instantiated for the adaptor: the same `fetch_add` on the wrapper's reserved counter followed by the wrapper's `get`. -/
theorem source_adaptors_over_wrapper_transparent {ρ' : Type} (f : Nat) (it : RSP.IterSelf) (n i : Nat) :
    (ClonedI.progress_and_get_begin_idx f ⟨it⟩ n : PF ρ' _) = Iter.progress_and_get_begin_idx f it n ∧
    (CopiedI.progress_and_get_begin_idx f ⟨it⟩ n : PF ρ' _) = Iter.progress_and_get_begin_idx f it n ∧
    (ClonedI.get f ⟨it⟩ i : PF ρ' _) = Iter.get f it i ∧ (CopiedI.get f ⟨it⟩ i : PF ρ' _) = Iter.get f it i ∧
    (ClonedI.fetch_one f ⟨it⟩ : PF ρ' _) = Iter.fetch_one f it ∧ (CopiedI.fetch_one f ⟨it⟩ : PF ρ' _) = Iter.fetch_one f it ∧
    (ClonedI.fetch_n f ⟨it⟩ n : PF ρ' _) = Iter.fetch_n f it n ∧ (CopiedI.fetch_n f ⟨it⟩ n : PF ρ' _) = Iter.fetch_n f it n ∧
    (ClonedI.early_exit f ⟨it⟩ : PF ρ' _) = Iter.early_exit f it ∧ (CopiedI.early_exit f ⟨it⟩ : PF ρ' _) = Iter.early_exit f it :=
  ⟨cloned_progress f it n, copied_progress f it n, cloned_get f it i, copied_get f it i, cloned_fetch_one f it, copied_fetch_one f it,
   cloned_fetch_n f it n, copied_fetch_n f it n, cloned_early_exit f it, copied_early_exit f it⟩

/-- the buffered chunk of the adaptor pulls through the wrapper's buffered chunk on the wrapped wrapper -/
theorem source_adaptor_buffered_pull_is_the_wrappers {ρ' : Type} (f : Nat) (c : RSP.BufIterSelf) (it : RSP.IterSelf) (b : Nat) :
    (BufClonedI.pull f ⟨c⟩ ⟨it⟩ b : PF ρ' _) =
      m_fn (PF.bind (BufIter.pull f c it b : PF _ _) (fun r => (pure (r.1, (⟨r.2⟩ : RSP.AdaptBufSelfP)) : PF _ _))) ∧
    (BufCopiedI.pull f ⟨c⟩ ⟨it⟩ b : PF ρ' _) =
      m_fn (PF.bind (BufIter.pull f c it b : PF _ _) (fun r => (pure (r.1, (⟨r.2⟩ : RSP.AdaptBufSelfP)) : PF _ _))) :=
  ⟨cloned_buf_pull f c it b, copied_buf_pull f c it b⟩

/-- **a buffered pull (`buffered_iter(n).next()`, hence `for_each` / `fold` with chunk size > 1) through `cloned()` / `copied()`
over the wrapper is, node for node, the wrapper's own buffered pull** (`GenThms.Proto.buffered_next_tree`): it reserves on the
wrapper's counter, checks `completed`, **waits for its turn** (`tWaitLoop`), fills the wrapper's buffer and publishes — the
generic `BufferedIter::next`, instantiated for the adaptor from the current source -/
theorem source_adaptor_buffered_next_is_the_wrappers {ρ' : Type} (k : Nat) (vals : List (Option Nat)) :
    (BufferedIterClonedI.next k (aself vals) : PF ρ' _) =
      .faa .R .acqrel vals.length (fun b => .ldB .C .seqcst fun c =>
        if c then .ret (.norm (none, aself vals))
        else tWaitLoop (fun o => match o with
          | none => .ret (.norm (none, aself vals))
          | some b' => tFill (tBufNextPublishA b') k vals 0) k b) ∧
    (BufferedIterCopiedI.next k (aself vals) : PF ρ' _) =
      .faa .R .acqrel vals.length (fun b => .ldB .C .seqcst fun c =>
        if c then .ret (.norm (none, aself vals))
        else tWaitLoop (fun o => match o with
          | none => .ret (.norm (none, aself vals))
          | some b' => tFill (tBufNextPublishA b') k vals 0) k b) :=
  ⟨cloned_buffered_next_tree k vals, copied_buffered_next_tree k vals⟩

end SourceWrapper

section Surface
open Orx.GenThms.Surface

/-- `Cloned` / `Copied` define the six required methods of `ConcurrentIter` (each forwarding to the underlying iterator: translated) and
nothing else; everything else is the trait's default, as for the underlying iterator -/
theorem source_adaptors_define_the_forwarding_methods_only :
    (implementors.all fun x => (fnsOf "ConcurrentIter" x).length == 1 &&
      (fnsOf "ConcurrentIter" x).all (sameSet requiredConcurrentIter)) = true ∧
    sameSet (implsOf "ConcurrentIter") implementors = true ∧
    fnsOf "trait" "ConcurrentIter" = [["into_seq_iter", "next_id_and_value", "next_chunk", "buffered_iter", "next", "values",
      "ids_and_values", "skip_to_end", "for_each", "enumerate_for_each", "fold", "try_get_len", "has_more"]] :=
  Orx.GenThms.Surface.concurrent_iter_defaults_are_not_overridden

/-- … and the five required methods of `AtomicIter` -/
theorem source_adaptors_define_the_forwarding_atomic_methods_only :
    (implementors.all fun x => (fnsOf "AtomicIter" x).length == 1 &&
      (fnsOf "AtomicIter" x).all (sameSet requiredAtomicIter)) = true ∧
    sameSet (implsOf "AtomicIter") implementors = true ∧
    fnsOf "trait" "AtomicIter" = [["counter", "progress_and_get_begin_idx", "get", "fetch_one", "fetch_n", "early_exit"]] :=
  Orx.GenThms.Surface.atomic_iter_defaults_are_not_overridden

end Surface

end Orx.Props.C13
