import Orx.KSRun
import Orx.GenThms.Range
import Orx.GenThms.Slice
import Orx.GenThms.Loops
import Orx.GenThms.ProtoBuf
/-! # C16 Boundary arithmetic: extreme ranges and chunk sizes behave mathematically -/
namespace Orx.Props.C16
open Orx Orx.KS

/-- **Chunk pulls over the whole 64-bit domain**: for every length, counter value and chunk size (all `< 2^64`,
nothing else assumed) the positions handed out are the mathematical ones: from `min(counter,len)` to
`min(min(counter,len) + n, len)` — never wrapped, never out of range, empty only at the end or for `n = 0`. -/
theorem chunk_range_mathematical (len c n : Nat) (hlen : len < W) (hn : n < W) :
    pullRange len c n = (min c len, min (min c len + n) len) := by
  have hW : W = 18446744073709551616 := rfl
  have hM : MAXW = 18446744073709551615 := rfl
  by_cases hc : c < len
  · have hmin : min c len = c := Nat.min_eq_left (Nat.le_of_lt hc)
    simp only [pullRange, hc, ↓reduceIte, hmin, satAdd]
    split
    · rw [Nat.max_eq_left (by omega)]
    · have h1 : min MAXW len = len := Nat.min_eq_right (by omega)
      have h2 : min (c + n) len = len := Nat.min_eq_right (by omega)
      rw [h1, h2, Nat.max_eq_left (by omega)]
  · have hmin : min c len = len := Nat.min_eq_right (by omega)
    simp only [pullRange, hc, ↓reduceIte, hmin, satAdd]
    split
    · have h2 : min (len + n) len = len := Nat.min_eq_right (by omega)
      rw [h2, Nat.max_self]
    · have h1 : min MAXW len = len := Nat.min_eq_right (by omega)
      have h2 : min (len + n) len = len := Nat.min_eq_right (by omega)
      rw [h1, h2, Nat.max_self]

/-- **Ranges**: for all bounds (also at `usize::MAX`, empty and inverted ranges) a position `i` below the
length maps to `start + i`, which is below `stop` — no overflow, no wrapped value. -/
theorem range_value_in_range (start stop i : Nat) (hstop : stop < W) (hi : i < stop - start) :
    start + i < stop ∧ start + i < W := by omega

/-- inverted and empty ranges have length 0: every pull reports the end -/
theorem range_inverted_empty (start stop c n : Nat) (h : stop ≤ start) :
    let s : KSrc := { kind := .range, start := start, stop := stop }
    s.len = 0 ∧ (pullRange s.len c n).1 = (pullRange s.len c n).2 := by
  simp [KSrc.len, pullRange]; omega

/-- a one-shot chunk pull of size 0 delivers nothing and leaves the counter unchanged -/
theorem chunk_zero_is_noop (len c : Nat) (hc : c < W) :
    (Atom.many 0).next len c = c ∧
      rangeList ((Atom.many 0).range len c).1 ((Atom.many 0).range len c).2 = [] :=
  chunk_zero_noop len c hc

/-- `skip_to_end` stores the length, for every kind (the range stores its length too, not its end bound) -/
theorem skip_stores_len (len c : Nat) : Atom.skip.next len c = len := rfl

/-- the documented panics: chunk size 0 for `buffered_iter`, `for_each`, `fold` -/
theorem zero_chunk_panics (s : KSrc) (t : Nat) (c : Cfg) (rest : List SOp) (k : Nat)
    (h : c.th t = { pc := .idle, todo := ⟨k, .bufnew 0⟩ :: rest, buf := none }) :
    (stepRest s t c c).2 = [.call ⟨k, .bufnew 0⟩, .panic "chunksize"] := by
  unfold stepRest; simp [h]

/-- **Finding H1 (kept open)**: the counter itself is a wrapping `fetch_add`; one pull, then a chunk pull of size
`usize::MAX` brings it back to 0 and position 0 is handed out again. Witness on a length-10 source: -/
theorem C16_finding_counter_wrap :
    delivered 10 [.one, .many MAXW, .one] 0 = [0] ++ [1, 2, 3, 4, 5, 6, 7, 8, 9] ++ [0] := by decide

/-- the partial statement that does hold: without wrap of the *counter* everything is mathematical -/
theorem C16_counter_partial (len : Nat) (as : List Atom) (hns : NoSkip as) (hw : NoWrap len as 0) :
    delivered len as 0 = List.range (pos len (runAtoms len as 0)) :=
  delivered_fresh len as hns hw


/-! ## The source itself (translated on every run) -/
open Orx.RS Orx.Gen Orx.GenThms in
/-- **`ConIterOfRange::fetch_n` as it is in the source, every range and chunk size**: the chunk's values are
`start + b .. start + e` for the mathematical position interval of `chunk_range_mathematical`; with `start ≤ stop` they
lie inside `[start, stop)`; for an empty or inverted range the pull reports the end; nothing overflows. -/
theorem source_range_chunk (a b n c : Nat) (evs dr) (ha : a < W) (hb : b < W) (hn : n < W) :
    Range.fetch_n (range a b) n (st c evs dr) =
      .ok (chunkOfR a (min c (b - a), min (min c (b - a) + n) (b - a))) (st (wrapAdd c n) (evs ++ [faa c n]) dr) := by
  rw [range_fetch_n a b n c evs dr ha hb, chunk_range_mathematical (b - a) c n (by omega) hn]

open Orx.RS Orx.Gen Orx.GenThms in
/-- single pulls of a range: position `c` carries the value `start + c`, only while `c < stop - start` -/
theorem source_range_item (a b c : Nat) (evs dr) (ha : a < W) (hb : b < W) :
    Range.fetch_one (range a b) (st c evs dr) =
      .ok (if c < b - a then some ⟨c, a + c⟩ else none) (st (wrapAdd c 1) (evs ++ [faa c 1]) dr) :=
  range_fetch_one a b c evs dr ha hb

open Orx.RS Orx.Gen Orx.GenThms in
/-- a one-shot chunk pull of size zero on the source's code: reports the end, counter unchanged -/
theorem source_chunk_zero (len c : Nat) (evs dr) (hc : c < W) :
    Slice.fetch_n (slice len) 0 (st c evs dr) = .ok none (st c (evs ++ [faa c 0]) dr) := by
  rw [slice_fetch_n]
  have h1 : wrapAdd c 0 = c := by simp [wrapAdd, Nat.mod_eq_of_lt hc]
  have h3 : (pullRange len c 0).1 = (pullRange len c 0).2 := by
    simp only [pullRange, satAdd]
    by_cases h : c < len
    · have : c + 0 < W := by omega
      simp only [h, ↓reduceIte, this]; omega
    · have : len + 0 < W := by omega
      simp only [h, ↓reduceIte, this]; omega
  have h2 : chunkOf (pullRange len c 0) = none := by simp [chunkOf, h3]
  rw [h1, h2]


/-! ## chunk size zero in the default loops, as in the source -/
section SourceLoops
open Orx.RSL Orx.GenL Orx.GenThms.Loops

/-- **`for_each` / `enumerate_for_each` / `fold` with chunk size zero panic as documented** (the `assert!` of
`default_fns`), before any pull: the tree is the panic leaf, for every length -/
theorem source_loops_zero_chunk_panics {ρ' : Type} (len fuel neutral : Nat) (f1 : Closure1) (f2 : ClosureIdx) (f3 : ClosureFold) :
    (Loops.for_each fuel ⟨len⟩ 0 f1 : PF ρ' Unit) = .panic "assert" ∧
    (Loops.for_each_with_ids fuel ⟨len⟩ 0 f2 : PF ρ' Unit) = .panic "assert" ∧
    (Loops.fold fuel ⟨len⟩ 0 f3 neutral : PF ρ' Nat) = .panic "assert" :=
  ⟨for_each_zero_panics len fuel f1, for_each_with_ids_zero_panics len fuel f2, fold_zero_panics len fuel neutral f3⟩

end SourceLoops

/-- **the buffer of a buffered iterator over a wrapped iterator has exactly `chunk_size` slots, as documented** — translated
`BufferIter::new`: no pre-sizing from a size hint, no cap, nothing shared is touched -/
theorem source_buffer_has_chunk_size_slots {ρ' : Type} (f n : Nat) :
    (GenP.BufIter.new f n : RSP.PF ρ' _) = .ret (.norm ⟨List.replicate n none⟩) :=
  GenThms.Proto.buf_new f n

end Orx.Props.C16
