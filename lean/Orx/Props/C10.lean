import Orx.KSRun
import Orx.GenThms.Slice
import Orx.GenThms.Range
import Orx.GenThms.Own
import Orx.GenThms.Iter
/-! # C10 into_seq_iter returns exactly the undelivered remainder, in order -/
namespace Orx.Props.C10
open Orx Orx.KS

/-- the positions `into_seq_iter` yields: everything from the clamped counter to the end, in order
(slice: `iter().skip(current)`, vec/array: `split_off_right(current.min(len))`, range: `start + current.min(len) .. end`) -/
def remainder (len ctr : Nat) : List Nat := rangeList (min ctr len) len

/-- the model's owner phase yields exactly that -/
theorem owner_intoseq_is_remainder (s : KSrc) (c : Cfg) :
    (owner s c (.intoseq none)).2.getLast? = some (.ret (.seq ((remainder s.len (c.ctr 0)).map s.valAt))) := by
  simp [owner, takeCountO, remainder]

/-- **Delivered ++ remainder = source, nothing duplicated or lost, in order**: for every source, every family of
per-thread programs and every interleaving, when the history of the iterator has no skip and does not wrap. -/
theorem delivered_and_remainder_partition (s : KSrc) (progs : Nat → List SOp) (hp : ∀ t, ∀ o ∈ progs t, NoCloneOp o)
    (σ : List Nat) :
    let c := run s σ (init s progs)
    NoSkip (atomsOf c.hist 0) → NoWrap s.len (atomsOf c.hist 0) 0 →
      delOf c.del 0 ++ remainder s.len (c.ctr 0) = List.range s.len := by
  intro c hns hw
  rw [cursor_all_schedules s progs hp σ 0 hns hw, ← rangeList_zero, ← rangeList_zero]
  exact rangeList_append 0 _ _ (Nat.zero_le _) (by unfold pos; omega)

/-- after `skip_to_end` the remainder is empty (a suffix of the undelivered elements) -/
theorem remainder_after_skip (len c : Nat) : remainder len (Atom.skip.next len c) = [] := by
  simp [remainder, Atom.next, rangeList_self]

/-- range: the remainder never contains an out-of-range value, whatever the counter (also a wrapped one) -/
theorem range_remainder_in_range (s : KSrc) (ctr p : Nat) (hp : p ∈ remainder s.len ctr) : p < s.len := by
  simp [remainder, rangeList] at hp; omega


/-! ## The source itself (translated on every run) -/
open Orx.RS Orx.Gen Orx.GenThms in
/-- **`into_seq_iter` of slice and range as in the source**: one load `c`; the remainder is the positions
`[min(c, len), len)` (slice: `iter().skip(c)`), for a range the values `[start + min(c, len), stop)` -/
theorem source_into_seq_is_remainder (len a b c : Nat) (evs dr) (ha : a < W) (hb : b < W) :
    Slice.into_seq_iter (slice len) (st c evs dr) = .ok ⟨min c len, len⟩ (st c (evs ++ [.ld (.ctr 0) .acquire c]) dr) ∧
    Range.into_seq_iter (range a b) (st c evs dr) = .ok ⟨a + min c (b - a), b⟩ (st c (evs ++ [.ld (.ctr 0) .acquire c]) dr) :=
  ⟨slice_into_seq_iter len c evs dr, range_into_seq_iter a b c evs dr ha hb⟩


/-! ## The consuming kinds as in the source (`Generated/Own.lean`) -/
section SourceOwn
open Orx.RSO Orx.GenO Orx.GenThms.Own

/-- **`into_seq_iter` of `ConIterOfVec` as in the source** (`split_off_right` + the `Drop` of `self`), followed by a caller
that drains the result: it yields exactly the positions `[min(c, len), len)` in order, destroys nothing, and never faults -/
theorem source_vec_into_seq_is_remainder (len cap f : Nat) (o : OSt) (ρ' : Type) (hc : VecCell o len cap)
    (hu : Untouched o (min o.ctr len) len) :
    (do let it ← Vec.into_seq_iter f (vecS len); seqConsume it none : PF ρ' _) o =
      .ok (.norm (remainder len o.ctr))
        { afterVecIntoSeq o len cap with heap := (afterVecIntoSeq o len cap).heap ++ (if 0 < len - min o.ctr len then [.free 1] else []) } := by
  have hs := seq_consume ⟨min o.ctr len, len - min o.ctr len, len - min o.ctr len, 1⟩ none (afterVecIntoSeq o len cap) ρ'
    (fun p h1 h2 => (hu p h1 (by simp only at h2; omega)).2)
  have hb : min o.ctr len + (len - min o.ctr len) = len := by omega
  simp only [seqCount, Nat.sub_self, dpHit_zero, dpAfter_zero, hb, GenThms.Own.rangeList_nil len len (Nat.le_refl _), List.append_nil] at hs
  simp only [bind, PF.bind, vec_into_seq_iter len cap f o _ hc hu, hs, remainder]
  simp [KS.rangeList, RSO.rangeList, afterVecIntoSeq]

/-- **`into_seq_iter` of `ConIterOfArray` as in the source**: the same positions; `self` is forgotten, nothing is destroyed -/
theorem source_arr_into_seq_is_remainder (N f : Nat) (o : OSt) (ρ' : Type) (hc : ArrCell o N) (hu : Untouched o (min o.ctr N) N) :
    (Arr.into_seq_iter f N arrS : PF ρ' _) o =
      .ok (.norm (arrRest N (min o.ctr N)))
        { o with evs := o.evs ++ [.ld (.ctr 0) .acquire o.ctr], vac := o.vac ++ RSO.rangeList (min o.ctr N) N,
                 heap := o.heap ++ (if min o.ctr N < N then [.alloc 1] else []) } ∧
    RSO.rangeList (arrRest N (min o.ctr N)).base ((arrRest N (min o.ctr N)).base + (arrRest N (min o.ctr N)).len) = remainder N o.ctr := by
  refine ⟨arr_into_seq_iter N f o ρ' hc hu, ?_⟩
  unfold arrRest remainder
  by_cases h : min o.ctr N < N
  · have hb : min o.ctr N + (N - min o.ctr N) = N := by omega
    simp [h, hb, KS.rangeList, RSO.rangeList]
  · have : min o.ctr N = N := by omega
    simp [this, KS.rangeList, RSO.rangeList]

end SourceOwn

/-- **`into_seq_iter` of the wrapper as in the source**: `self.iter.into_inner()` — the wrapped iterator is handed back as it
is, without any atomic access and without polling it; what it yields from there on is what it had not yet yielded
(the model's `intoseq` step of `IW/Full.lean`: the rest of the script from the position reached). Together with the extracted
fact that `into_seq_iter` and `mut_iter` are the only functions that touch the `UnsafeCell` (`Props/C14`) -/
theorem source_wrapper_into_seq_is_the_wrapped_iterator (init : Option Nat) (s : RS.St) :
    Gen.Iter.into_seq_iter (GenThms.iter init) s = .ok {} s :=
  GenThms.iter_into_seq_iter init s

end Orx.Props.C10
