import Orx.KSRun
import Orx.IW.Outs
import Orx.IW.FullLoops
import Orx.GenThms.ProtoSimBuf
import Orx.GenThms.Loops
import Orx.KSLoops
import Orx.GenThms.Surface
/-! # C12 for_each / enumerate_for_each / fold visit every element exactly once -/
namespace Orx.Props.C12
open Orx Orx.KS

/-- folding a commutative, associative operation over a list does not depend on the order of the list -/
theorem foldl_perm {α : Type} (op : α → α → α) (hc : ∀ a b, op a b = op b a) (ha : ∀ a b c, op (op a b) c = op a (op b c))
    {l1 l2 : List α} (h : l1.Perm l2) (e : α) : l1.foldl op e = l2.foldl op e := by
  induction h generalizing e with
  | nil => rfl
  | cons x _ ih => simp only [List.foldl_cons]; exact ih _
  | swap x y l =>
    simp only [List.foldl_cons]
    have : op (op e y) x = op (op e x) y := by rw [ha, hc y x, ← ha]
    rw [this]
  | trans _ _ ih1 ih2 => exact (ih1 e).trans (ih2 e)

theorem foldl_op_start {α : Type} (op : α → α → α) (hc : ∀ a b, op a b = op b a) (ha : ∀ a b c, op (op a b) c = op a (op b c))
    (l : List α) (a b : α) : l.foldl op (op a b) = op a (l.foldl op b) := by
  induction l generalizing b with
  | nil => rfl
  | cons x xs ih => simp only [List.foldl_cons]; rw [ha, ih]

theorem fold_parts {α : Type} (op : α → α → α) (e : α) (hc : ∀ a b, op a b = op b a)
    (ha : ∀ a b c, op (op a b) c = op a (op b c)) (hn : ∀ a, op e a = a) (parts : List (List α)) :
    (parts.map fun p => p.foldl op e).foldl op e = parts.flatten.foldl op e := by
  induction parts with
  | nil => simp
  | cons p ps ih =>
    have hflat : (p :: ps).flatten = p ++ ps.flatten := by simp
    simp only [List.map_cons, List.foldl_cons, hflat, List.foldl_append]
    rw [hn]
    have h2 : op (p.foldl op e) e = p.foldl op e := by rw [hc]; exact hn _
    have h1 := foldl_op_start op hc ha (ps.map fun p => p.foldl op e) (p.foldl op e) e
    rw [h2] at h1
    have h3 := foldl_op_start op hc ha ps.flatten (p.foldl op e) e
    rw [h2] at h3
    rw [h1, ih, h3]

/-- **Combining per-thread folds.** Let the threads' closures have received the lists `parts` (thread by
thread, in any order inside and across threads), which together are a permutation of the source — that is what
C01 gives for `for_each`/`fold` loops run to the end. Then combining the per-thread results with the same
commutative, associative operation and its neutral element is the sequential fold of the source. -/
theorem fold_combine {α : Type} (op : α → α → α) (e : α) (hc : ∀ a b, op a b = op b a)
    (ha : ∀ a b c, op (op a b) c = op a (op b c)) (hn : ∀ a, op e a = a)
    (parts : List (List α)) (src : List α) (hperm : parts.flatten.Perm src) :
    (parts.map fun p => p.foldl op e).foldl op e = src.foldl op e := by
  rw [fold_parts op e hc ha hn parts]
  exact foldl_perm op hc ha hperm e

/-- known-size loops: a loop step of chunk size `n` visits exactly the positions of its pull, in order, with
the right index in the enumerated form (the closure panics nowhere) -/
theorem visitAll_visits (s : KSrc) (withIdx : Bool) (ps : List Nat) (v sm : Nat) (acc : List Ev)
    (hnc : s.adapt ≠ .cloned) :
    (visitAll s withIdx none ps v sm acc).1 = acc ++ ps.map fun p => Ev.visit (if withIdx then some p else none) (s.valAt p) := by
  induction ps generalizing v sm acc with
  | nil => simp [visitAll]
  | cons p ps ih =>
    have : cloneEvs s [p] = [] := by unfold cloneEvs; split <;> simp_all
    simp only [visitAll, this, List.append_nil]
    simp [ih]

/-- a `for_each`/`fold` loop ends only when a pull saw the counter at or beyond the length: when it returns,
the iterator is exhausted (`known_size_end_permanent` then says it stays so) -/
theorem loop_returns_exhausted (len c n : Nat) (hn : 1 ≤ n) (hlen : len < W)
    (h : (pullRange len c n).1 = (pullRange len c n).2) : len ≤ c := by
  simp only [pullRange] at h
  split at h
  · have : c < satAdd c n := by
      unfold satAdd; split
      · omega
      · simp only [MAXW, W] at *; omega
    omega
  · omega

/-- the visited positions of all loops and pulls together are `0..len` exactly once (C01) -/
theorem all_visited_once (s : KSrc) (progs : Nat → List SOp) (hp : ∀ t, ∀ o ∈ progs t, NoCloneOp o)
    (σ : List Nat) :
    let c := run s σ (init s progs)
    NoSkip (atomsOf c.hist 0) → NoWrap s.len (atomsOf c.hist 0) 0 → s.len ≤ c.ctr 0 →
      delOf c.del 0 = List.range s.len := by
  intro c hns hw hl
  rw [cursor_all_schedules s progs hp σ 0 hns hw]
  have : pos s.len (c.ctr 0) = s.len := by unfold pos; omega
  rw [this]

/-- **for_each / enumerate_for_each / fold / values / ids_and_values over the owning wrapper, every schedule**: threads that
run nothing but these loops (any mix of positive chunk sizes; closures and wrapped iterator do not panic) never make the
machinery destroy an element, and once all loops have returned the closures have been invoked on exactly the elements the
wrapped iterator produced, each exactly once — the full thread machine `IWF.step` (protocol, loop-owned buffers, chunk
iterators), multiset equality. That the iterator was polled exactly up to its first `None` is `IW.exactly_once` /
`Inv.callOk`; the right index in the enumerated form is `OInv.good` (C02). -/
theorem iter_loops_visit_every_produced_element_once (s : IWF.ISrc) (hown : s.owning = true) (hnp : ∀ i, s.fn i ≠ .panic)
    (n : Nat) (progs : Nat → List SOp) (hloop : ∀ t, t < n → ∀ o ∈ progs t, IWF.isLoopOp o.op = true)
    (σ : List Nat) (hσ : ∀ t ∈ σ, t < n) (hb : IWF.Below s σ (IWF.init progs))
    (hfin : ∀ t, t < n → IWF.finished ((IWF.run s σ (IWF.init progs)).d t) = true) (p : Nat) :
    (IWF.run s σ (IWF.init progs)).dr = [] ∧
    (IWF.prod s (IWF.run s σ (IWF.init progs)).core.P).count p = (IWF.run s σ (IWF.init progs)).mv.count p :=
  IWF.loops_visit_every_produced_element_once s hown hnp n progs hloop σ hσ hb hfin p

def lpS : IWF.ISrc := { script := [.some 7, .some 3, .some 9, .some 4, .some 8, .none] }
def lpProgs : Nat → List SOp := fun t =>
  if t = 0 then [⟨0, .foreach 2 none⟩] else if t = 1 then [⟨0, .fold 3⟩, ⟨0, .values⟩] else []
def lpSched : List Nat := (List.range 120).map (· % 2) ++ List.replicate 60 0 ++ List.replicate 60 1

/-- non-vacuity: two threads with different chunk sizes, interleaved step by step, visit the five elements once -/
example : IWF.Below lpS lpSched (IWF.init lpProgs) ∧
    (∀ t, t < 2 → IWF.finished ((IWF.run lpS lpSched (IWF.init lpProgs)).d t) = true) ∧
    (IWF.run lpS lpSched (IWF.init lpProgs)).mv.length = 5 := by
  refine ⟨by decide +kernel, ?_, by decide +kernel⟩
  intro t ht
  have : t = 0 ∨ t = 1 := by omega
  rcases this with rfl | rfl <;> decide +kernel


/-- `for_each` / `fold` with chunk size > 1 pull through `buffered_iter`: the request of the model is the translated
`BufferedIter::next`/`BufferIter::pull` of the current source -/
theorem source_buffered_request_is_the_translated_function (F : Nat) (buf : List (Option Nat)) (l : Bool) :
    GenThms.Proto.reqTreeB F buf = GenThms.Proto.treeAtB F F buf (.resv (.buffered buf.length l)) :=
  GenThms.Proto.reqTreeB_eq F buf l


/-! ## The default loops as in the source (`default_fns/for_each.rs`, `default_fns/fold.rs`, translated on every run) -/
section SourceLoops
open Orx.RSL Orx.GenL Orx.GenThms.Loops

/-- **`for_each`, `enumerate_for_each` and `fold` as translated from the source are the model's loops** — for every length
(`< 2^64`), every chunk size `≥ 1` (1 takes the one-by-one path, `> 1` the buffered path), every fuel: each iteration is one
pull (`fetch_add(1)` resp. `fetch_add(n)`), the closure is called on exactly the positions that pull handed out, in order,
with the source position as index in the enumerated form, `fold` threads its accumulator through exactly those calls, and
the loop returns precisely when a pull reads a counter value at or beyond the length — i.e. with the iterator exhausted. -/
theorem source_loops_are_model_loops {ρ' : Type} (len n fuel : Nat) (hn : 0 < n) (hw : len < W) :
    (∀ f, (Loops.for_each fuel ⟨len⟩ n f : PF ρ' Unit) = specLoop len n false fuel) ∧
    (∀ f, (Loops.for_each_with_ids fuel ⟨len⟩ n f : PF ρ' Unit) = specLoop len n true fuel) ∧
    (∀ f neutral, (Loops.fold fuel ⟨len⟩ n f neutral : PF ρ' Nat) = specFold len n f.g fuel neutral) :=
  ⟨fun f => for_each_is_model_loop len n fuel f hn, fun f => for_each_with_ids_is_model_loop len n fuel f hn hw,
   fun f neutral => fold_is_model_loop len n fuel neutral f hn⟩

/-- the trait methods hand their arguments to these functions unchanged -/
theorem source_loops_dispatch : Loops.dispatch =
    [("for_each", "default_fns::for_each::for_each(self,chunk_size,fun)"),
     ("enumerate_for_each", "default_fns::for_each::for_each_with_ids(self,chunk_size,fun)"),
     ("fold", "default_fns::fold::fold(self,chunk_size,fold,neutral)")] := dispatch_as_expected

/-- **the model's loop step is the tree's node** (`KSLoops.lean`): the theorems above about runs of `KS.step` (`visitAll_visits`,
`loop_returns_exhausted`, `all_visited_once`) are therefore statements about the translated loops: a thread of the model at
pc `.loop` performs, step by step, exactly the pulls and closure calls of a path through `specLoop`. -/
theorem model_loop_step_is_tree_node (s : KSrc) (t : Nat) (c : KS.Cfg) (o : SOp) (visits sum n : Nat) (w : Bool) (pa : Option Nat)
    (hpc : (c.th t).pc = .loop o visits sum) (hlp : KS.loopParams o.op = some (n, w, pa, false)) (fuel : Nat) :
    if c.ctr o.slot < s.len then
      (KS.step s t c).2.filterMap KS.visitOf =
        (KS.walk pa (visitSeq w (pulled s.len n (c.ctr o.slot)) (specLoop (ρ := Unit) s.len n w fuel)) visits).1.map
          (fun ip => (ip.1, s.valAt ip.2)) ∧
      ((∃ sum', (((KS.step s t c).1).th t).pc = .loop o
          (KS.walk pa (visitSeq w (pulled s.len n (c.ctr o.slot)) (specLoop (ρ := Unit) s.len n w fuel)) visits).2.1 sum' ∧
        (KS.walk pa (visitSeq w (pulled s.len n (c.ctr o.slot)) (specLoop (ρ := Unit) s.len n w fuel)) visits).2.2 = specLoop s.len n w fuel) ∨
       ((((KS.step s t c).1).th t).pc = .dead ∧
        (KS.walk pa (visitSeq w (pulled s.len n (c.ctr o.slot)) (specLoop (ρ := Unit) s.len n w fuel)) visits).2.2 = .panic "closure"))
    else (((KS.step s t c).1).th t).pc = .idle ∧ (KS.step s t c).2.filterMap KS.visitOf = [] :=
  KS.loop_step_is_tree_node s t c o visits sum n w pa hpc hlp fuel

/-- the same for `fold`: the accumulator the model carries from step to step (the wrapping sum of the payloads) is the
accumulator the translated `fold` threads through its closure calls -/
theorem model_fold_step_is_tree_node (s : KSrc) (t : Nat) (c : KS.Cfg) (o : SOp) (visits sum n : Nat) (pa : Option Nat)
    (hpc : (c.th t).pc = .loop o visits sum) (hlp : KS.loopParams o.op = some (n, false, pa, true)) (fuel : Nat) :
    if c.ctr o.slot < s.len then
      (KS.step s t c).2.filterMap KS.visitOf =
        (KS.walk pa (visitFold (KS.sumG s) (pulled s.len n (c.ctr o.slot)) sum (specFold (ρ := Unit) s.len n (KS.sumG s) fuel)) visits).1.map
          (fun ip => (ip.1, s.valAt ip.2)) ∧
      ((∃ sum', (((KS.step s t c).1).th t).pc = .loop o
          (KS.walk pa (visitFold (KS.sumG s) (pulled s.len n (c.ctr o.slot)) sum (specFold (ρ := Unit) s.len n (KS.sumG s) fuel)) visits).2.1 sum' ∧
        (KS.walk pa (visitFold (KS.sumG s) (pulled s.len n (c.ctr o.slot)) sum (specFold (ρ := Unit) s.len n (KS.sumG s) fuel)) visits).2.2
          = specFold s.len n (KS.sumG s) fuel sum') ∨
       ((((KS.step s t c).1).th t).pc = .dead ∧
        (KS.walk pa (visitFold (KS.sumG s) (pulled s.len n (c.ctr o.slot)) sum (specFold (ρ := Unit) s.len n (KS.sumG s) fuel)) visits).2.2
          = .panic "closure"))
    else (((KS.step s t c).1).th t).pc = .idle ∧ (KS.step s t c).2.filterMap KS.visitOf = [] :=
  KS.fold_step_is_tree_node s t c o visits sum n pa hpc hlp fuel

/-- non-vacuity: the tree of `for_each` with chunk size 2 over 3 elements, along the path on which this thread's pulls read
0 and then 4: two closure calls (positions 0 and 1), then the return -/
example : (match (Loops.for_each 5 ⟨3⟩ 2 {} : PF Unit Unit) with
    | .faa _ n k => (n, match k 0 with
      | .visit none p k1 => (p, match k1 false with
        | .visit none p2 k2 => (p2, match k2 false with
          | .faa _ _ k3 => (match k3 4 with | .ret _ => true | _ => false)
          | _ => false)
        | _ => (99, false))
      | _ => (99, 99, false))
    | _ => (99, 99, 99, false)) = (2, 0, 1, true) := by
  rw [for_each_is_model_loop 3 2 5 {} (by omega)]
  decide

end SourceLoops

section Surface
open Orx.GenThms.Surface

/-- **the loops of every kind are the translated default functions**: no implementor of `ConcurrentIter` overrides `for_each`,
`enumerate_for_each` or `fold` (each defines the six required methods only), and there are exactly the seven implementors -/
theorem source_loops_are_the_trait_defaults_for_every_kind :
    (implementors.all fun x => (fnsOf "ConcurrentIter" x).length == 1 &&
      (fnsOf "ConcurrentIter" x).all (sameSet requiredConcurrentIter)) = true ∧
    sameSet (implsOf "ConcurrentIter") implementors = true ∧
    fnsOf "trait" "ConcurrentIter" = [["into_seq_iter", "next_id_and_value", "next_chunk", "buffered_iter", "next", "values",
      "ids_and_values", "skip_to_end", "for_each", "enumerate_for_each", "fold", "try_get_len", "has_more"]] :=
  Orx.GenThms.Surface.concurrent_iter_defaults_are_not_overridden

/-- … and the single pulls they make are the trait's default `fetch_one` -/
theorem source_loops_pull_through_the_trait_default :
    (implementors.all fun x => (fnsOf "AtomicIter" x).length == 1 &&
      (fnsOf "AtomicIter" x).all (sameSet requiredAtomicIter)) = true ∧
    sameSet (implsOf "AtomicIter") implementors = true ∧
    fnsOf "trait" "AtomicIter" = [["counter", "progress_and_get_begin_idx", "get", "fetch_one", "fetch_n", "early_exit"]] :=
  Orx.GenThms.Surface.atomic_iter_defaults_are_not_overridden

end Surface

end Orx.Props.C12
