import Orx.KSRun
import Orx.IW.Outs
import Orx.IW.NoLoss
import Orx.Props.C07
import Orx.GenThms.Loops
import Orx.GenThms.Surface
/-! # C04 Order: the shared iterator is one linearizable sequential cursor -/
namespace Orx.Props.C04
open Orx Orx.KS

/-- **Known-size kinds are a sequential cursor.** Every concurrent history is a sequence of atomic accesses;
for any such sequence (no skip, no counter wrap) the positions are handed out in strictly increasing, gap-free
order, starting at the cursor: the `i`-th handed-out position is `pos + i`. -/
theorem known_size_gap_free_prefix (len : Nat) (as : List Atom) (c : Nat) (hns : NoSkip as) (hw : NoWrap len as c)
    (i : Nat) (hi : i < (delivered len as c).length) : (delivered len as c)[i] = pos len c + i := by
  have h := (delivered_eq len as c hns hw).1
  simp only [h, rangeList] at hi ⊢
  simp at hi ⊢; omega

/-- at every reachable configuration of the thread machine (any programs, any schedule) the hand-out log of
a slot is the gap-free prefix `0..min(counter,len)`: in particular whenever no pull is in flight -/
theorem known_size_quiescent_prefix (s : KSrc) (progs : Nat → List SOp) (hp : ∀ t, ∀ o ∈ progs t, NoCloneOp o)
    (σ : List Nat) (k : Nat) :
    let c := run s σ (init s progs)
    NoSkip (atomsOf c.hist k) → NoWrap s.len (atomsOf c.hist k) 0 →
      delOf c.del k = List.range (pos s.len (c.ctr k)) :=
  cursor_all_schedules s progs hp σ k

/-- a later atomic access never hands out a smaller position (real-time order: an operation that returned
before another one started performed its access earlier): everything handed out by a history `as` is below
everything handed out by a history `bs` that follows it -/
theorem known_size_later_is_larger (len : Nat) (as bs : List Atom) (c : Nat)
    (hnsa : NoSkip as) (hwa : NoWrap len as c) (hnsb : NoSkip bs) (hwb : NoWrap len bs (runAtoms len as c))
    (p q : Nat) (hp : p ∈ delivered len as c) (hq : q ∈ delivered len bs (runAtoms len as c)) : p < q := by
  rw [(delivered_eq len as c hnsa hwa).1] at hp
  rw [(delivered_eq len bs _ hnsb hwb).1] at hq
  simp [rangeList] at hp hq
  obtain ⟨i, hi, rfl⟩ := hp
  obtain ⟨j, hj, rfl⟩ := hq
  omega

/-- **Wrapper**: the positions a thread receives are strictly increasing from pull to pull -/
theorem iter_per_thread_increasing (s : IW.Script) (ps : Nat → List IW.Req)
    (hok : ∀ t, ∀ r ∈ ps t, IW.ReqOk r) (σ : List Nat) (hW : (IW.run s σ (IW.init ps)).R < W) (t : Nat) :
    ((IW.run s σ (IW.init ps)).th t).outs.Pairwise fun a b => ∀ p ∈ a.pos, ∀ q ∈ b.pos, p < q :=
  (IW.oinv_run σ (IW.inv_init s ps hok) (IW.oinv_init s ps) hW).sorted t

/-- **Wrapper, real-time order**: everything handed out so far lies below the yielded counter, and every
ticket that is reserved from now on starts at or above the reserved counter, which is at least the yielded
counter: a pull that starts after another one returned gets larger positions. -/
theorem iter_realtime_order (s : IW.Script) (ps : Nat → List IW.Req)
    (hok : ∀ t, ∀ r ∈ ps t, IW.ReqOk r) (σ : List Nat) (hW : (IW.run s σ (IW.init ps)).R < W)
    (t : Nat) (o : IW.POut) (ho : o ∈ ((IW.run s σ (IW.init ps)).th t).outs) (p : Nat) (hp : p ∈ o.pos) :
    let c := IW.run s σ (IW.init ps)
    p < c.Y ∧ c.Y ≤ c.R ∧
      ∀ u r, (c.th u).pc = .resv r → ((IW.step s u c).th u).pc.ticket = some (c.R, r.len) := by
  intro c
  have hi := IW.inv_reach s ps hok σ hW
  refine ⟨(IW.oinv_run σ (IW.inv_init s ps hok) (IW.oinv_init s ps) hW).belowY t o ho p hp, hi.yr, ?_⟩
  intro u r hpc
  unfold IW.step
  simp [hpc, IW.setTh, IW.Pc.ticket]

/-- a ticket is always served at its own begin index: the thread in the critical section holds exactly the
ticket `yielded` points at (tickets are served in reservation order) -/
theorem iter_served_in_ticket_order (s : IW.Script) (ps : Nat → List IW.Req)
    (hok : ∀ t, ∀ r ∈ ps t, IW.ReqOk r) (σ : List Nat) (hW : (IW.run s σ (IW.init ps)).R < W)
    (t b n : Nat) (hcs : ((IW.run s σ (IW.init ps)).th t).pc.inCS = true)
    (htk : ((IW.run s σ (IW.init ps)).th t).pc.ticket = some (b, n)) : b = (IW.run s σ (IW.init ps)).Y :=
  (IW.inv_reach s ps hok σ hW).csY t b n hcs htk

/-- **Wrapper, gap-free prefix**: in every reachable configuration, every position below the yielded counter
that the wrapped iterator filled before it ended has been handed out, and everything handed out lies below the
yielded counter and was filled: whenever no pull is in flight the delivered positions are exactly the filled prefix. -/
theorem iter_quiescent_prefix (s : IW.Script) (hnp : IW.NoPanic s) (ps : Nat → List IW.Req)
    (hok : ∀ t, ∀ r ∈ ps t, IW.ReqOk r) (hns : ∀ t, ∀ r ∈ ps t, r ≠ .skip) (σ : List Nat)
    (hW : (IW.run s σ (IW.init ps)).R < W) (p : Nat) :
    (p < (IW.run s σ (IW.init ps)).Y → IW.NoNoneBefore s (p + 1) → IW.Delivered (IW.run s σ (IW.init ps)) p) ∧
    (IW.Delivered (IW.run s σ (IW.init ps)) p → p < (IW.run s σ (IW.init ps)).Y ∧ IW.NoNoneBefore s (p + 1)) := by
  obtain ⟨_, ho, hl, _⟩ := IW.all_inv_run hnp σ (IW.inv_init s ps hok) (IW.oinv_init s ps) (IW.linv_init s ps)
    (IW.finv_init s ps hns) (by intro t b n; simp [IW.init]) hW
  refine ⟨hl.noLoss p, fun hd => ⟨?_, hl.delOk p hd⟩⟩
  obtain ⟨t, o, ho', hp⟩ := hd
  exact ho.belowY t o ho' p hp


/-- **What the sequential-cursor order of the wrapper presupposes beyond SC interleavings.** The theorems above speak about positions; that the
element delivered at a position is the one the wrapped iterator produced for it also needs the iterator's internal state to
be handed from one puller to the next without a data race. That is the happens-before chain of C07, which holds for the
memory orderings *extracted from the current source* (`Acquire` load of `yielded`, releasing `fetch_add` /
`fetch_and_increment`), under every schedule and every choice of stale loads: -/
theorem iter_handover_is_race_free (s : IW.Script) (ps : Nat → List IW.Req) (hok : ∀ t, ∀ r ∈ ps t, IW.ReqOk r)
    (σ : List (Nat × IW.Stale)) (hW : (IW.runS s σ (IW.init ps)).R < W) (t : Nat)
    (huse : ∃ r b acc, ((IW.hrunS C07.srcOrds s σ (IW.hinit ps)).core.th t).pc = .cs r b acc ∨
                       ((IW.hrunS C07.srcOrds s σ (IW.hinit ps)).core.th t).pc = .ins r b acc) :
    (IW.hrunS C07.srcOrds s σ (IW.hinit ps)).last.le ((IW.hrunS C07.srcOrds s σ (IW.hinit ps)).clk t) :=
  C07.hb_chain_under_stale_reads s ps hok σ hW t huse


/-! ## the for-loop adaptors `values()` / `ids_and_values()` as in the source (`src/iter/wrappers/*.rs`) -/
section SourceWrappers
open Orx.RSL Orx.GenL Orx.GenThms.Loops

/-- **a `for` loop over `values()` / `ids_and_values()` is a sequence of single pulls of the shared cursor**: the adaptors'
`next` is exactly one `fetch_add(1)` returning the element at the value read (with its source index), and they override
nothing else — `nth`, `skip`, `step_by`, `take`, … are std's default methods, i.e. more calls of that `next`. So "any
single-threaded sequence of operations yields exactly what the wrapped sequential iterator would yield, in the same order"
extends to every std adaptor a caller puts on top of them. -/
theorem source_values_wrappers_are_single_pulls {ρ' : Type} (f : Nat) (it : ItH) :
    (Values.next f ⟨it⟩ : PF ρ' _) = .faa .acqrel 1 (fun c => .ret (.norm (if c < it.len then some c else none))) ∧
    (IdsAndValues.next f ⟨it⟩ : PF ρ' _) = .faa .acqrel 1 (fun c => .ret (.norm (if c < it.len then some (c, c) else none))) ∧
    Values.iterator_overrides = ["next"] ∧ IdsAndValues.iterator_overrides = ["next"] :=
  ⟨values_next f it, ids_and_values_next f it, wrappers_override_only_next.1, wrappers_override_only_next.2⟩

end SourceWrappers

section Surface
open Orx.GenThms.Surface

/-- `next`, `values`, `ids_and_values`, the loops and `has_more` are the trait's default bodies for every kind: no implementor of
`ConcurrentIter` defines anything beyond the six required methods -/
theorem source_views_and_loops_are_the_trait_defaults :
    (implementors.all fun x => (fnsOf "ConcurrentIter" x).length == 1 &&
      (fnsOf "ConcurrentIter" x).all (sameSet requiredConcurrentIter)) = true ∧
    sameSet (implsOf "ConcurrentIter") implementors = true ∧
    fnsOf "trait" "ConcurrentIter" = [["into_seq_iter", "next_id_and_value", "next_chunk", "buffered_iter", "next", "values",
      "ids_and_values", "skip_to_end", "for_each", "enumerate_for_each", "fold", "try_get_len", "has_more"]] :=
  Orx.GenThms.Surface.concurrent_iter_defaults_are_not_overridden

/-- the std iterators the crate defines, and the methods each overrides -/
theorem source_value_iterators_are_the_modelled_ones :
    sameSet (implsOf "Iterator") ["BufferedIter", "Taken", "ConIterIdsAndValues", "ConIterValues"] = true ∧
    fnsOf "Iterator" "BufferedIter" = [["next", "size_hint"]] ∧ fnsOf "Iterator" "Taken" = [["next", "size_hint"]] ∧
    fnsOf "Iterator" "ConIterIdsAndValues" = [["next"]] ∧ fnsOf "Iterator" "ConIterValues" = [["next"]] ∧
    sameSet (implsOf "ExactSizeIterator") ["BufferedIter", "Taken"] = true ∧
    fnsOf "ExactSizeIterator" "BufferedIter" = [["len"]] ∧ fnsOf "ExactSizeIterator" "Taken" = [[]] :=
  Orx.GenThms.Surface.the_iterators

end Surface

end Orx.Props.C04
