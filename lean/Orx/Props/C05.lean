import Orx.KSRun
import Orx.IW.Completed
import Orx.IW.Weak
import Orx.Generated.Orderings
import Orx.GenThms.ProtoSim
import Orx.GenThms.Surface
/-! # C05 The end is permanent: pulling past the end never revives elements -/
namespace Orx.Props.C05
open Orx Orx.KS

/-- **Known-size kinds**: once the counter has reached the length (that is exactly when a pull reports the
end), every later history — any number of further pulls of any positive sizes, queries, skips — delivers
nothing, and the counter stays at or beyond the length; cumulative count below `2^64`. -/
theorem known_size_end_permanent (len : Nat) (as : List Atom) (c : Nat) (hc : len ≤ c) (hw : NoWrap len as c) :
    delivered len as c = [] ∧ len ≤ runAtoms len as c :=
  end_permanent len as c hc hw

/-- a pull reports the end iff the counter it read is at or beyond the length -/
theorem known_size_end_iff (len c n : Nat) (hn : 1 ≤ n) (hlen : len < W) :
    (pullRange len c n).1 = (pullRange len c n).2 ↔ len ≤ c := by
  simp only [pullRange]
  split
  · have : c < satAdd c n := by
      unfold satAdd; split
      · omega
      · simp only [MAXW, W] at *; omega
    omega
  · omega

/-- and then no length query reports a positive number -/
theorem known_size_len_zero_after_end (len c : Nat) (hc : len ≤ c) : lenOf len c = 0 := by
  unfold lenOf; split <;> omega

/-- **Wrapper**: `completed` is never reset, under any schedule … -/
theorem iter_completed_permanent (s : IW.Script) (σ : List Nat) (c : IW.Cfg) (h : c.C = true) :
    (IW.run s σ c).C = true :=
  IW.run_C_mono s σ c h

/-- … and once it is set, a thread that starts pulling (or is between pulls) never receives a position again,
whatever all threads do afterwards: every such pull reports the end. -/
theorem iter_no_delivery_after_completed (s : IW.Script) (σ : List Nat) (u : Nat) (c : IW.Cfg)
    (hC : c.C = true) (hq : (c.th u).pc.quiet = true) :
    IW.outPos ((IW.run s σ c).th u) = IW.outPos (c.th u) :=
  (IW.quiet_run s σ u c hC hq).2

/-- every pull (single, one-shot chunk, buffered) that meets a `None` of the wrapped iterator goes through `setC`:
it sets `completed` before it publishes or returns -- so that the wrapped iterator is never polled again -/
theorem iter_end_sets_completed (s : IW.Script) (t : Nat) (c : IW.Cfg) (r : IW.Req) (b : Nat) (acc : List Nat)
    (h : (c.th t).pc = .setC r b acc) : (IW.step s t c).C = true := by
  unfold IW.step; simp only [h]; split <;> simp [IW.setTh]

/-- **… also beyond SC interleavings**: with stale `Acquire` loads of `yielded` and stale `Relaxed` loads of `completed`
chosen adversarially at every step (`IW/Weak.lean`), a thread that starts pulling after `completed` was set never
receives a position: the check it passes right after reserving is a `SeqCst` load of a flag that is only written by
`SeqCst` stores (`source_completed_checks_are_seqcst`), so it cannot be stale. -/
theorem iter_no_delivery_after_completed_under_stale_reads (s : IW.Script) (σ : List (Nat × IW.Stale)) (u : Nat) (c : IW.Cfg)
    (hC : c.C = true) (hq : (c.th u).pc.quiet = true) :
    IW.outPos ((IW.runS s σ c).th u) = IW.outPos (c.th u) :=
  (IW.quiet_runS s σ u c hC hq).2

/-- the orderings that statement relies on, read off the current source on every run -/
theorem source_completed_checks_are_seqcst :
    Orx.Generated.Orderings.completed_progress_and_get_begin_idx_load0 = .seqcst ∧
    Orx.Generated.Orderings.completed_progress_and_get_begin_idx_load1 = .seqcst ∧
    Orx.Generated.Orderings.completed_get_load0 = .seqcst ∧
    Orx.Generated.Orderings.completed_get_load1 = .seqcst ∧
    Orx.Generated.Orderings.completed_get_store2 = .seqcst ∧
    Orx.Generated.Orderings.completed_fetch_n_store0 = .seqcst ∧
    Orx.Generated.Orderings.completed_early_exit_store0 = .seqcst ∧
    Orx.Generated.Orderings.completed_mark_completed_store0 = .seqcst ∧
    Orx.Generated.Orderings.completed_drop_store0 = .seqcst := by decide


/-- **The end as the source records it** (`get` and `fetch_n`, translated): after the wrapped iterator returned `None`
the very next access is `completed.store(true, SeqCst)`, before anything is published on `yielded`; a short chunk does
the same. -/
theorem source_none_marks_completed {β : Type} (K : Option Nat → RSP.Prog β) (n b m : Nat) (acc : List Nat)
    (hlt : acc.length < n) :
    GenThms.Proto.child (GenThms.Proto.tPollOneExit K) (.src .none) = some (.stB .C .seqcst true (K none)) ∧
    GenThms.Proto.child (GenThms.Proto.tCollectExit (GenThms.Proto.sPublish n b) m acc) (.src .none) =
      some (.stB .C .seqcst true (GenThms.Proto.sPub n b acc)) := by
  refine ⟨rfl, ?_⟩
  simp [GenThms.Proto.tCollectExit, GenThms.Proto.child, GenThms.Proto.sPublish, hlt]

/-- a pull that finds `completed` set right after reserving returns the end without touching the wrapped iterator:
the first two accesses of every request, as translated -/
theorem source_completed_is_checked_first (k : Nat) (r : IW.Req) :
    GenThms.Proto.treeAt k (IW.Pc.resv r) = .faa .R .acqrel r.len fun b => .ldB .C .seqcst fun c =>
      if c then .ret .fin else GenThms.Proto.waitTree k r b := rfl

theorem source_requests_are_the_translated_functions (k : Nat) :
    (∀ l, GenThms.Proto.reqTree k (.single l) = GenThms.Proto.treeAt k (.resv (.single l))) ∧
    (∀ n, 1 ≤ n → GenThms.Proto.reqTree k (.chunk n) = GenThms.Proto.treeAt k (.resv (.chunk n))) ∧
    GenThms.Proto.reqTree k .skip = GenThms.Proto.treeAt k .skp :=
  ⟨GenThms.Proto.reqTree_single k, GenThms.Proto.reqTree_chunk k, GenThms.Proto.reqTree_skip k⟩

section Surface
open Orx.GenThms.Surface

/-- **nothing but the two consuming iterators, `Taken` and the unwind guard has a destructor**: dropping a buffered iterator, a chunk
of a non-consuming kind, an adaptor or a view performs no access to the counters — the end, once reported, cannot be undone by a drop -/
theorem source_dropping_a_buffered_iterator_runs_no_code :
    sameSet (implsOf "Drop") ["ConIterOfArray", "ConIterOfVec", "Taken", "CompleteOnUnwind"] = true :=
  Orx.GenThms.Surface.the_destructors

end Surface

section SurfaceApi
open Orx.GenThms.Surface Orx.Gen

/-- the whole inherent API of the crate's types and its free functions: no operation exists that moves a counter backwards or re-arms
an exhausted iterator (the counters are reached through `fetch_add`, `store(len)` / `swap(len)` in `early_exit`, and loads only:
`Generated/Orderings.lean`) -/
theorem source_no_operation_rewinds :
    fnsOf "" "AtomicCounter" = [["new", "fetch_and_add", "fetch_and_increment", "current", "store", "swap"]] ∧
    fnsOf "" "ConIterOfSlice" = [["new", "as_slice"]] ∧ fnsOf "" "ConIterOfRange" = [["new", "range"]] ∧
    fnsOf "" "ConIterOfVec" = [["new", "take_one", "take_slice", "split_off_right"]] ∧
    fnsOf "" "ConIterOfArray" = [["new", "take_one", "take_slice", "split_off_right"]] ∧
    fnsOf "" "ConIterOfIter" = [["new", "mut_iter", "progress_yielded_counter", "mark_completed", "complete_on_unwind"]] ∧
    fnsOf "" "CompleteOnUnwind" = [["disarm"]] ∧ fnsOf "" "Taken" = [["new"]] ∧
    fnsOf "" "Cloned" = [["new", "underlying_iter"]] ∧ fnsOf "" "Copied" = [["new", "underlying_iter"]] ∧
    sameSet (implsOf "") ["AtomicCounter", "ConIterOfSlice", "ConIterOfRange", "ConIterOfVec", "ConIterOfArray", "ConIterOfIter",
      "CompleteOnUnwind", "Taken", "Cloned", "Copied", "BufferedIter"] = true ∧
    (surface.filter (fun r => r.tr == "fn")).map (·.fns) = [["fold"], ["for_each", "for_each_with_ids"]] :=
  Orx.GenThms.Surface.the_inherent_api

end SurfaceApi

section SurfaceState
open Orx.GenThms.Surface Orx.Gen

/-- the state of every type is the model's: nothing beside the counters and the flag records progress (no deferred "hand-back", no
second counter), so what `end_permanent` says about the counters says everything -/
theorem source_state_is_the_models :
    fieldsOf "AtomicCounter" = [["current: AtomicUsize"]] ∧
    fieldsOf "ConIterOfSlice" = [["slice: &'a[T]", "counter: AtomicCounter"]] ∧
    fieldsOf "ConIterOfRange" = [["range: Range<Idx>", "counter: AtomicCounter"]] ∧
    fieldsOf "ConIterOfVec" = [["vec: UnsafeCell<ManuallyDrop<Vec<T>>>", "vec_len: usize", "counter: AtomicCounter"]] ∧
    fieldsOf "ConIterOfArray" = [["array: UnsafeCell<ManuallyDrop<[T;N]>>", "counter: AtomicCounter"]] ∧
    fieldsOf "ConIterOfIter" = [["iter: UnsafeCell<Iter>", "initial_len: Option<usize>", "reserved_counter: AtomicCounter",
      "yielded_counter: AtomicCounter", "completed: AtomicBool"]] ∧
    fieldsOf "CompleteOnUnwind" = [["completed: &'aAtomicBool", "armed: bool"]] ∧
    fieldsOf "Taken" = [["ptr: *mutT", "len: usize", "idx: usize"]] ∧
    fieldsOf "BufferedIter" = [["buffered_iter: B", "atomic_iter: &'aB::ConIter", "phantom: PhantomData<T>"],
      ["values: &'amut[Option<T>]", "initial_len: usize", "current_idx: usize"]] ∧
    fieldsOf "BufferIter" = [["values: Vec<Option<T>>", "phantom: PhantomData<Iter>"]] ∧
    fieldsOf "BufferedSlice" = [["chunk_size: usize", "phantom: PhantomData<T>"]] ∧
    fieldsOf "BufferedVec" = [["chunk_size: usize", "phantom: PhantomData<T>"]] ∧
    fieldsOf "BufferedArray" = [["chunk_size: usize", "phantom: PhantomData<T>"]] ∧
    fieldsOf "BufferedRange" = [["chunk_size: usize"]] ∧
    fieldsOf "ClonedBufferedChunk" = [["chunk: C", "phantom: PhantomData<&'aT>"]] ∧
    fieldsOf "CopiedBufferedChunk" = [["chunk: C", "phantom: PhantomData<&'aT>"]] ∧
    fieldsOf "Cloned" = [["iter: A", "phantom: PhantomData<&'aT>"]] ∧ fieldsOf "Copied" = [["iter: A", "phantom: PhantomData<&'aT>"]] ∧
    fieldsOf "ConIterValues" = [["con_iter: &'aC"]] ∧ fieldsOf "ConIterIdsAndValues" = [["con_iter: &'aC"]] :=
  Orx.GenThms.Surface.the_state

end SurfaceState

end Orx.Props.C05
