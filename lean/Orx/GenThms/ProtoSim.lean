import Orx.GenThms.Proto
import Orx.IW.Local
import Orx.IW.Reach
/-! # The protocol model's thread is the small-step unfolding of the translated source

`treeAt k pc` is the residual program of a thread of `IW/Core.lean` at `pc`, written with the trees of `Proto.lean`.
* `reqTree_eq`: at the start of a request the residual program **is** the translated Rust function (`fetch_one`,
  `fetch_n`, `skip_to_end` of the current source), with its result read as a model output.
* `sim_step`: the root of `treeAt k pc` is the access `actOf pc` of the model, and its child for the value read is the
  residual program of the pc the model moves to (`lstep`) — or the returned value. One step of the model thread = one
  node of the source's tree, for every pc, every value the memory may return, every fuel.
* `wf_lstep`: the shape conditions `WF` under which that holds are kept by every step.
Together with `IW.step_local` (a model step = `actOf`/`respOf`/`lstep` against the memory): whatever the other threads do,
a thread of the model performs exactly the accesses of the source function, in its order, with its orderings, and
returns what it returns. Not covered here: `Req.buffered` (`BufferIter::pull`, a loop with a mutable buffer). -/
set_option linter.unusedSimpArgs false
namespace Orx.GenThms.Proto
open Orx Orx.RSP Orx.GenP Orx.IW
open Orx.RS (AtomicH CounterSelf AtomicBoolH Next NextChunk Ord3)

/-! ## results as model outputs -/

def outOne : Flow Unit (Option (Next Nat)) → Prog POut
  | .norm none => .ret .fin
  | .norm (some x) => .ret (.item x.idx x.value)
  | _ => .panic "flow"

def outChunk : Flow Unit (Option (NextChunk (List Nat))) → Prog POut
  | .norm none => .ret .fin
  | .norm (some x) => .ret (match x.values with | [] => .fin | v :: rest => .chunk x.begin_idx (v :: rest))
  | _ => .panic "flow"

/-- a request of the model as the call of the translated function -/
def reqTree (k : Nat) : Req → Prog POut
  | .single _ => Prog.bind (Iter.next_id_and_value k iter0 : PF Unit _) outOne
  | .chunk n => Prog.bind (Iter.next_chunk k iter0 n : PF Unit _) outChunk
  | .skip => Prog.bind (Iter.skip_to_end k iter0 : PF Unit _) (fun _ => .ret .unit)
  | .buffered _ _ => .spin

/-! ## residual programs -/

def KS (b : Nat) : Option Nat → Prog POut
  | none => .ret .fin
  | some v => .ret (.item b v)

def sPub (n b : Nat) (acc : List Nat) : Prog POut :=
  .faa .Y .acqrel n fun old =>
    if old = b then .ret (match acc with | [] => .fin | v :: rest => .chunk b (v :: rest)) else .panic "assert_eq"

def sPublish (n b : Nat) (acc : List Nat) : Prog POut :=
  if acc.length < n then .stB .C .seqcst true (sPub n b acc) else sPub n b acc

def KC (n : Nat) : Option Nat → Prog POut
  | none => .ret .fin
  | some b => tCollect (sPublish n b) (satAdd b n - b) []

/-- the exit half of one poll of `get` -/
def tPollOneExit {β : Type} (K : Option Nat → Prog β) : Prog β :=
  .exit fun r => match r with
    | .some v => .faa .Y .acqrel 1 (fun _ => K (some v))
    | .none => .stB .C .seqcst true (K none)
    | .panic => .stB .C .seqcst true (.panic "next")

/-- the exit half of one poll of `fetch_n` -/
def tCollectExit {β : Type} (REST : List Nat → Prog β) (m : Nat) (acc : List Nat) : Prog β :=
  .exit fun r => match r with
    | .some v => tCollect REST m (acc ++ [v])
    | .none => REST acc
    | .panic => .stB .C .seqcst true (.panic "next")

/-- spinning for the turn of position `b` -/
def waitTree (k : Nat) (r : Req) (b : Nat) : Prog POut :=
  match r with
  | .single _ => tGetLoop (KS b) k b
  | .chunk n => tWaitLoop (KC n) k b
  | _ => .spin

/-- the turn has come and `completed` is unset -/
def entBody (r : Req) (b : Nat) : Prog POut :=
  match r with
  | .single _ => tPollOne (KS b)
  | .chunk n => KC n (some b)
  | _ => .spin

def treeAt (k : Nat) : Pc → Prog POut
  | .idle => .spin
  | .skp => .stB .C .seqcst true (.ret .unit)
  | .resv r => .faa .R .acqrel r.len fun b => .ldB .C .seqcst fun c => if c then .ret .fin else waitTree k r b
  | .pre r b => .ldB .C .seqcst fun c => if c then .ret .fin else waitTree k r b
  | .wait r b => waitTree k r b
  | .chk r b => .ldB .C .relaxed fun c => if c then .ret .fin else waitTree (k - 1) r b
  | .ent r b => .ldB .C .seqcst fun c => if c then .ret .fin else entBody r b
  | .cs (.single _) b _ => tPollOne (KS b)
  | .ins (.single _) b _ => tPollOneExit (KS b)
  | .cs (.chunk n) b acc => tCollect (sPublish n b) (satAdd b n - b - acc.length) acc
  | .ins (.chunk n) b acc => tCollectExit (sPublish n b) (satAdd b n - b - acc.length - 1) acc
  | .setC (.single _) _ _ => .stB .C .seqcst true (.ret .fin)
  | .setC (.chunk n) b acc => .stB .C .seqcst true (sPub n b acc)
  | .pub (.single _) b acc => .faa .Y .acqrel 1 fun _ => .ret (match acc with | [] => .fin | v :: _ => .item b v)
  | .pub (.chunk n) b acc => sPub n b acc
  | .unw _ _ => .stB .C .seqcst true (.panic "next")
  | .dead _ _ => .panic "next"
  | _ => .spin

/-! ## the request trees are the translated functions -/

theorem bind_KS (b : Nat) (o : Option Nat) :
    outOne (.norm (o.map fun v => ({ idx := b, value := v } : Next Nat))) = KS b o := by
  cases o <;> rfl

theorem reqTree_single (k : Nat) (l : Bool) : reqTree k (.single l) = treeAt k (.resv (.single l)) := by
  simp only [reqTree, next_id_and_value_tree, treeAt, Prog.bind, Req.len, waitTree]
  congr 1; funext b; congr 1; funext c
  cases c
  · simp only [Bool.false_eq_true, if_false, bind_tGetLoop, Prog.bind, bind_KS]
  · simp [Prog.bind, outOne]

theorem bind_tPublish (n b : Nat) (acc : List Nat) : Prog.bind (tPublish n b acc) outChunk = sPublish n b acc := by
  unfold tPublish sPublish sPub
  cases acc with
  | nil =>
    by_cases hl : 0 < n
    · simp [hl, Prog.bind, outChunk]
    · simp [hl, Prog.bind, outChunk]
  | cons v rest =>
    by_cases hl : rest.length + 1 < n
    · simp [hl, Prog.bind, outChunk]
    · simp [hl, Prog.bind, outChunk]

theorem reqTree_chunk (k n : Nat) (hn : 1 ≤ n) : reqTree k (.chunk n) = treeAt k (.resv (.chunk n)) := by
  have hn0 : n ≠ 0 := by omega
  simp only [reqTree, next_chunk_tree, treeAt, hn0, if_false, Prog.bind, Req.len, waitTree]
  congr 1; funext b; congr 1; funext c
  cases c
  · simp only [Bool.false_eq_true, if_false, bind_tWaitLoop]
    congr 1; funext o
    cases o with
    | none => simp [Prog.bind, outChunk, KC]
    | some b' =>
      simp only [KC, bind_tCollect]
      congr 1; funext l
      exact bind_tPublish n b' l
  · simp [Prog.bind, outChunk]

theorem reqTree_skip (k : Nat) : reqTree k .skip = treeAt k .skp := by
  simp [reqTree, skip_to_end_tree, treeAt, Prog.bind]

/-! ## one model step = one node -/

/-- root of a tree as an access of the model -/
def head {α : Type} : Prog α → Option Act
  | .faa l o n _ => some (.faa l o n)
  | .ldN l o _ => some (.ldN l o)
  | .ldB l o _ => some (.ldB l o)
  | .stB l o v _ => some (.stB l o v)
  | .enter _ => some .enter
  | .exit _ => some .exit
  | _ => none

/-- the subtree selected by the value the access returned -/
def child {α : Type} : Prog α → Resp → Option (Prog α)
  | .faa _ _ _ k, .nat v => some (k v)
  | .ldN _ _ k, .nat v => some (k v)
  | .ldB _ _ k, .bool v => some (k v)
  | .stB _ _ _ k, .unit => some k
  | .enter k, .unit => some k
  | .exit k, .src r => some (k r)
  | _, _ => none

/-- requests covered: single pulls and one-shot chunks of size ≥ 1 -/
def ReqP (r : Req) : Prop := (∃ l, r = .single l) ∨ (∃ n, r = .chunk n ∧ 1 ≤ n)

/-- shapes of the pcs of covered requests (all reachable ones have them: `wf_lstep`) -/
def WF : Pc → Prop
  | .resv r | .pre r _ | .wait r _ | .chk r _ | .ent r _ => ReqP r
  | .cs r b acc | .ins r b acc => ReqP r ∧ acc.length < iters r b
  | .setC r _ acc => ReqP r ∧ acc.length < r.len
  | .pub r _ _ => ReqP r
  | _ => True

/-- the value has the kind the access returns; the `fetch_add` publishing a chunk reads the ticket's begin (that is
`Inv.csY`: it holds in every reachable configuration — the crate's `assert_eq!` never fires) -/
def RespOk : Pc → Resp → Prop
  | .skp, .unit | .cs _ _ _, .unit | .setC _ _ _, .unit | .unw _ _, .unit => True
  | .resv _, .nat _ | .wait _ _, .nat _ => True
  | .pre _ _, .bool _ | .chk _ _, .bool _ | .ent _ _, .bool _ => True
  | .ins _ _ _, .src _ => True
  | .pub r b _, .nat v => r.isSingle = true ∨ v = b
  | _, _ => False

def fuelAfter (k : Nat) : Pc → Nat
  | .chk _ _ => k - 1
  | _ => k

def contOf (k : Nat) (pc : Pc) : LRes → Prog POut
  | .go pc' => treeAt (fuelAfter k pc) pc'
  | .done _ o => .ret o

theorem iters_single (l : Bool) (b : Nat) : iters (.single l) b = 1 := rfl
theorem iters_chunk (n b : Nat) : iters (.chunk n) b = satAdd b n - b := rfl
theorem iters_le_chunk (n b : Nat) : satAdd b n - b ≤ n := by
  unfold satAdd MAXW W; split <;> omega

theorem KS_none (b : Nat) : KS b none = .ret .fin := rfl
theorem KC_none (n : Nat) : KC n none = .ret .fin := rfl

/-- **One step of the model's thread is one node of the source's tree.** For every pc of a covered request, every fuel
`k ≥ 1` and every value `resp` of the right kind: the root of the residual program is the access the model performs, and
its child for `resp` is the residual program of the model's next pc — or the value the model returns. -/
theorem sim_step (k : Nat) (pc : Pc) (resp : Resp) (hk : 1 ≤ k) (hw : WF pc) (hr : RespOk pc resp) :
    head (treeAt k pc) = actOf pc ∧ child (treeAt k pc) resp = some (contOf k pc (lstep pc resp)) := by
  obtain ⟨k', rfl⟩ : ∃ k', k = k' + 1 := ⟨k - 1, by omega⟩
  cases pc with
  | idle => cases resp <;> simp [RespOk] at hr
  | dead b n => cases resp <;> simp [RespOk] at hr
  | skp =>
    cases resp <;> simp [RespOk] at hr
    exact ⟨rfl, rfl⟩
  | unw b n =>
    cases resp <;> simp [RespOk] at hr
    exact ⟨rfl, rfl⟩
  | resv r =>
    cases resp <;> simp [RespOk] at hr
    exact ⟨rfl, rfl⟩
  | pre r b =>
    cases resp with
    | bool v => cases v <;> exact ⟨rfl, rfl⟩
    | _ => simp [RespOk] at hr
  | chk r b =>
    cases resp with
    | bool v => cases v <;> exact ⟨rfl, rfl⟩
    | _ => simp [RespOk] at hr
  | wait r b =>
    cases resp with
    | nat y =>
      rcases hw with ⟨l, rfl⟩ | ⟨n, rfl, hn⟩
      · refine ⟨rfl, ?_⟩
        simp only [treeAt, waitTree, tGetLoop, child, lstep]
        by_cases h1 : b = y
        · subst h1; simp [contOf, treeAt, fuelAfter, entBody, KS_none]
        · by_cases h2 : b < y
          · simp [h1, h2, contOf, KS_none]
          · simp [h1, h2, contOf, treeAt, fuelAfter, waitTree, KS_none]
      · refine ⟨rfl, ?_⟩
        simp only [treeAt, waitTree, tWaitLoop, child, lstep]
        by_cases h1 : b = y
        · subst h1; simp [contOf, treeAt, fuelAfter, entBody, KC_none]
        · by_cases h2 : b < y
          · simp [h1, h2, contOf, KC_none]
          · simp [h1, h2, contOf, treeAt, fuelAfter, waitTree, KC_none]
    | _ => simp [RespOk] at hr
  | ent r b =>
    cases resp with
    | bool v =>
      rcases hw with ⟨l, rfl⟩ | ⟨n, rfl, hn⟩
      · cases v
        · refine ⟨rfl, ?_⟩
          simp [treeAt, child, lstep, iters_single, contOf, fuelAfter, entBody]
        · exact ⟨rfl, rfl⟩
      · cases v
        · refine ⟨rfl, ?_⟩
          simp only [treeAt, child, lstep, iters_chunk, contOf, fuelAfter, entBody, KC, Bool.false_eq_true, if_false]
          by_cases hi : satAdd b n - b = 0
          · have : 0 < n := hn
            simp [hi, tCollect, sPublish, this, treeAt]
          · simp [hi, treeAt]
        · exact ⟨rfl, rfl⟩
    | _ => simp [RespOk] at hr
  | cs r b acc =>
    cases resp <;> simp [RespOk] at hr
    rcases hw with ⟨⟨l, rfl⟩ | ⟨n, rfl, hn⟩, hacc⟩
    · exact ⟨rfl, rfl⟩
    · rw [iters_chunk] at hacc
      have hm : satAdd b n - b - acc.length = (satAdd b n - b - acc.length - 1) + 1 := by omega
      refine ⟨?_, ?_⟩
      · simp only [treeAt]; rw [hm]; rfl
      · simp only [treeAt, lstep, contOf, fuelAfter]; rw [hm]; rfl
  | ins r b acc =>
    cases resp with
    | src x =>
      rcases hw with ⟨⟨l, rfl⟩ | ⟨n, rfl, hn⟩, hacc⟩
      · rw [iters_single] at hacc
        have hnil : acc = [] := List.length_eq_zero_iff.mp (by omega)
        subst hnil
        refine ⟨rfl, ?_⟩
        cases x with
        | some v => simp [treeAt, tPollOneExit, child, lstep, iters_single, Req.len, contOf, fuelAfter, KS]
        | none => simp [treeAt, tPollOneExit, child, lstep, contOf, fuelAfter, KS]
        | panic => simp [treeAt, tPollOneExit, child, lstep, contOf, fuelAfter, Req.len]
      · rw [iters_chunk] at hacc
        have hle := iters_le_chunk n b
        refine ⟨rfl, ?_⟩
        cases x with
        | some v =>
          simp only [treeAt, tCollectExit, child, lstep, iters_chunk, Req.len, contOf, fuelAfter, List.length_append,
            List.length_singleton]
          by_cases he : acc.length + 1 = satAdd b n - b
          · have hm : satAdd b n - b - acc.length - 1 = 0 := by omega
            simp only [he, if_true, hm, tCollect, sPublish, List.length_append, List.length_singleton]
            by_cases hlt : satAdd b n - b < n
            · simp [hlt, treeAt]
            · simp [hlt, treeAt]
          · have hm : satAdd b n - b - acc.length - 1 = satAdd b n - b - (acc.length + 1) := by omega
            simp [he, treeAt, hm]
        | none =>
          have hlt : acc.length < n := by omega
          simp [treeAt, tCollectExit, child, lstep, contOf, fuelAfter, sPublish, hlt]
        | panic => simp [treeAt, tCollectExit, child, lstep, contOf, fuelAfter, Req.len]
    | _ => simp [RespOk] at hr
  | setC r b acc =>
    cases resp <;> simp [RespOk] at hr
    rcases hw with ⟨⟨l, rfl⟩ | ⟨n, rfl, hn⟩, hacc⟩
    · exact ⟨rfl, rfl⟩
    · exact ⟨rfl, rfl⟩
  | pub r b acc =>
    cases resp with
    | nat v =>
      rcases hw with ⟨l, rfl⟩ | ⟨n, rfl, hn⟩
      · refine ⟨rfl, ?_⟩
        cases acc <;> simp [treeAt, child, lstep, contOf, Req.isSingle]
      · have hv : v = b := by simpa [RespOk, Req.isSingle] using hr
        subst hv
        refine ⟨rfl, ?_⟩
        cases acc <;> simp [treeAt, sPub, child, lstep, contOf, Req.isSingle]
    | _ => simp [RespOk] at hr

/-- the shape conditions are kept by every step -/
theorem iters_le_len (r : Req) (b : Nat) (hr : ReqP r) : iters r b ≤ r.len := by
  rcases hr with ⟨l, rfl⟩ | ⟨n, rfl, _⟩
  · simp [iters_single, Req.len]
  · simpa [iters_chunk, Req.len] using iters_le_chunk n b

theorem len_pos (r : Req) (hr : ReqP r) : 0 < r.len := by
  rcases hr with ⟨l, rfl⟩ | ⟨n, rfl, hn⟩
  · simp [Req.len]
  · simp only [Req.len]; omega

theorem wf_lstep (pc pc' : Pc) (resp : Resp) (hw : WF pc) (hr : RespOk pc resp) (h : lstep pc resp = .go pc') : WF pc' := by
  cases pc with
  | idle => cases resp <;> simp [RespOk] at hr
  | dead b n => cases resp <;> simp [RespOk] at hr
  | skp => simp [lstep] at h
  | unw b n => simp [lstep] at h; subst h; trivial
  | resv r =>
    cases resp <;> simp [RespOk] at hr
    simp [lstep] at h; subst h; exact hw
  | pre r b =>
    cases resp with
    | bool v => cases v <;> simp [lstep] at h; subst h; exact hw
    | _ => simp [RespOk] at hr
  | chk r b =>
    cases resp with
    | bool v => cases v <;> simp [lstep] at h; subst h; exact hw
    | _ => simp [RespOk] at hr
  | wait r b =>
    cases resp with
    | nat y =>
      simp only [lstep] at h
      split at h
      · cases h; exact hw
      · split at h
        · cases h
        · cases h; exact hw
    | _ => simp [RespOk] at hr
  | ent r b =>
    cases resp with
    | bool v =>
      cases v
      · simp only [lstep, Bool.false_eq_true, if_false] at h
        split at h
        · cases h; exact ⟨hw, len_pos r hw⟩
        · cases h; exact ⟨hw, by simpa using (by omega : 0 < iters r b)⟩
      · simp [lstep] at h
    | _ => simp [RespOk] at hr
  | cs r b acc =>
    cases resp <;> simp [RespOk] at hr
    simp [lstep] at h; subst h; exact hw
  | ins r b acc =>
    obtain ⟨hq, hacc⟩ := hw
    cases resp with
    | src x =>
      cases x with
      | some v =>
        simp only [lstep] at h
        split at h
        · split at h
          · cases h; exact ⟨hq, by assumption⟩
          · cases h; exact hq
        · rename_i hne
          cases h
          refine ⟨hq, ?_⟩
          simp only [List.length_append, List.length_singleton] at hne ⊢
          omega
      | none =>
        simp [lstep] at h; subst h
        exact ⟨hq, by have := iters_le_len r b hq; omega⟩
      | panic => simp [lstep] at h; subst h; trivial
    | _ => simp [RespOk] at hr
  | setC r b acc =>
    cases resp <;> simp [RespOk] at hr
    simp only [lstep] at h
    split at h
    · cases h
    · cases h; exact hw.1
  | pub r b acc =>
    cases resp with
    | nat v =>
      simp only [lstep] at h
      cases acc with
      | nil => cases h
      | cons a rest => simp only at h; split at h <;> cases h
    | _ => simp [RespOk] at hr

/-! ## along every run of the model -/

/-- programs made of single pulls, one-shot chunks of size ≥ 1 and skips -/
def Covered (r : Req) : Prop := r = .skip ∨ ReqP r

theorem covered_ok (r : Req) (h : Covered r) : ReqOk r := by
  rcases h with rfl | ⟨l, rfl⟩ | ⟨n, rfl, hn⟩
  · exact Or.inl rfl
  · exact Or.inr (by simp [Req.len])
  · exact Or.inr (by simpa [Req.len] using hn)

/-- every thread's pc has its shape, every pending request is covered -/
def WFC (c : Cfg) : Prop := ∀ t, WF (c.th t).pc ∧ ∀ r ∈ (c.th t).todo, Covered r

/-- the request a pc works on is covered (needed when a looping request is issued again) -/
theorem wf_done (pc : Pc) (resp : Resp) (r : Req) (o : POut) (hw : WF pc) (h : lstep pc resp = .done r o) :
    r = .skip ∨ ReqP r := by
  cases pc with
  | skp => simp [lstep] at h; exact Or.inl h.1.symm
  | pre r' b =>
    cases resp with
    | bool v => cases v <;> simp [lstep] at h; exact Or.inr (h.1 ▸ hw)
    | _ => simp [lstep] at h
  | chk r' b =>
    cases resp with
    | bool v => cases v <;> simp [lstep] at h; exact Or.inr (h.1 ▸ hw)
    | _ => simp [lstep] at h
  | ent r' b =>
    cases resp with
    | bool v =>
      cases v
      · simp only [lstep, Bool.false_eq_true, if_false] at h; split at h <;> cases h
      · simp [lstep] at h; exact Or.inr (h.1 ▸ hw)
    | _ => simp [lstep] at h
  | wait r' b =>
    cases resp with
    | nat y =>
      simp only [lstep] at h
      split at h
      · cases h
      · split at h
        · cases h; exact Or.inr hw
        · cases h
    | _ => simp [lstep] at h
  | setC r' b acc =>
    simp only [lstep] at h
    split at h
    · cases h; exact Or.inr hw.1
    · cases h
  | pub r' b acc =>
    simp only [lstep] at h
    cases acc with
    | nil => cases h; exact Or.inr hw
    | cons a rest => simp only at h; split at h <;> (cases h; exact Or.inr hw)
  | ins r' b acc =>
    cases resp with
    | src x =>
      cases x with
      | some v =>
        simp only [lstep] at h
        split at h
        · split at h <;> cases h
        · cases h
      | none => simp [lstep] at h
      | panic => simp [lstep] at h
    | _ => simp [lstep] at h
  | idle => cases resp <;> simp [lstep] at h
  | dead b n => cases resp <;> simp [lstep] at h
  | resv r' => cases resp <;> simp [lstep] at h
  | cs r' b acc => simp [lstep] at h
  | unw b n => simp [lstep] at h

theorem respOk_of_inv {s : Script} {c : Cfg} (hi : Inv s c) (t : Nat) (h : actOf (c.th t).pc ≠ none) :
    RespOk (c.th t).pc (respOf s c (c.th t).pc) := by
  cases hpc : (c.th t).pc with
  | idle => simp [hpc, actOf] at h
  | dead b n => simp [hpc, actOf] at h
  | pub r b acc =>
    have := hi.csY t b r.len (by simp [hpc, Pc.inCS]) (by simp [hpc, Pc.ticket])
    simp [RespOk, respOf, this]
  | _ => simp [RespOk, respOf]

theorem wfc_step (s : Script) (t : Nat) (c : Cfg) (hi : Inv s c) (hw : WFC c) : WFC (step s t c) := by
  by_cases ha : actOf (c.th t).pc = none
  · -- idle (pops a request) or dead (nothing)
    cases hpc : (c.th t).pc with
    | idle =>
      unfold step
      simp only [hpc]
      cases htd : (c.th t).todo with
      | nil => simpa using hw
      | cons r rest =>
        have hr : Covered r := (hw t).2 r (by simp [htd])
        have hrest : ∀ r' ∈ rest, Covered r' := fun r' h' => (hw t).2 r' (by simp [htd, h'])
        intro u
        by_cases hu : u = t
        · subst hu
          cases r with
          | skip => simp [WF]; exact hrest
          | single l => simpa [WF] using ⟨Or.inl ⟨l, rfl⟩, hrest⟩
          | chunk n =>
            rcases hr with h0 | ⟨l, h0⟩ | ⟨m, h0, hm⟩
            · cases h0
            · cases h0
            · cases h0; simpa [WF] using ⟨Or.inr ⟨n, rfl, hm⟩, hrest⟩
          | buffered n l =>
            rcases hr with h0 | ⟨l', h0⟩ | ⟨m, h0, hm⟩ <;> cases h0
        · cases r <;> simpa [setTh, hu] using hw u
    | dead b n => unfold step; simpa [hpc] using hw
    | _ => simp [hpc, actOf] at ha
  · rw [step_local s t c ha]
    have hro := respOk_of_inv hi t ha
    intro u
    by_cases hu : u = t
    · subst hu
      simp only [setTh_th_same]
      cases hl : lstep (c.th u).pc (respOf s c (c.th u).pc) with
      | go pc' => exact ⟨wf_lstep _ _ _ (hw u).1 hro hl, (hw u).2⟩
      | done r o =>
        have hr := wf_done _ _ r o (hw u).1 hl
        simp only [applyL, ret]
        split
        · rename_i hloop
          rcases hr with rfl | hr
          · simp [Req.isLoop] at hloop
          · exact ⟨hr, (hw u).2⟩
        · exact ⟨trivial, (hw u).2⟩
    · have : (setTh (effOf c (c.th t).pc) t (applyL (c.th t) (lstep (c.th t).pc (respOf s c (c.th t).pc)))).th u = c.th u := by
        simp only [setTh, hu, if_false]
        cases (c.th t).pc <;> rfl
      rw [this]; exact hw u

theorem wfc_init (ps : Nat → List Req) (h : ∀ t, ∀ r ∈ ps t, Covered r) : WFC (init ps) := by
  intro t; exact ⟨trivial, h t⟩

theorem wfc_run (s : Script) (σ : List Nat) (c : Cfg) (hi : Inv s c) (hw : WFC c) (hW : (IW.run s σ c).R < W) :
    WFC (IW.run s σ c) := by
  induction σ generalizing c with
  | nil => simpa [IW.run]
  | cons t ts ih =>
    simp only [IW.run] at hW ⊢
    have h1 : (step s t c).R < W := Nat.lt_of_le_of_lt (run_R_mono s ts _) hW
    have h0 : c.R < W := Nat.lt_of_le_of_lt (step_R_mono s t c) h1
    exact ih _ (step_inv hi h0 t) (wfc_step s t c hi hw) hW

/-- **The model's threads execute the translated source.** In every configuration reachable under any schedule (programs of
single pulls, one-shot chunks and skips; counters below `2^64`), for every thread that is inside a request: the access it
performs next is the root of the residual program `treeAt k pc` (for any fuel `k ≥ 1`), the model's step is that access
against the shared memory, and the thread's residual program afterwards is the child of the tree for the value the memory
returned. At the start of a request `treeAt` is the translated Rust function itself (`reqTree_single`,
`reqTree_chunk`, `reqTree_skip`). -/
theorem model_thread_follows_source (s : Script) (ps : Nat → List Req) (hps : ∀ t, ∀ r ∈ ps t, Covered r)
    (σ : List Nat) (hW : (IW.run s σ (init ps)).R < W) (t k : Nat) (hk : 1 ≤ k)
    (ha : actOf ((IW.run s σ (init ps)).th t).pc ≠ none) :
    let c := IW.run s σ (init ps)
    let pc := (c.th t).pc
    head (treeAt k pc) = actOf pc ∧
    child (treeAt k pc) (respOf s c pc) = some (contOf k pc (lstep pc (respOf s c pc))) ∧
    step s t c = setTh (effOf c pc) t (applyL (c.th t) (lstep pc (respOf s c pc))) := by
  intro c pc
  have hi0 : Inv s (init ps) := inv_init s ps (fun t r hr => covered_ok r (hps t r hr))
  have hi : Inv s c := inv_run σ hi0 hW
  have hw : WFC c := wfc_run s σ _ hi0 (wfc_init ps hps) hW
  have hs := sim_step k pc (respOf s c pc) hk (hw t).1 (respOk_of_inv hi t ha)
  exact ⟨hs.1, hs.2, step_local s t c ha⟩

/-- the crate's own `assert_eq!(older_count, begin_idx)` never fires: in every reachable configuration the thread that
publishes reads its own ticket's begin from `yielded` -/
theorem publish_assertion_holds (s : Script) (ps : Nat → List Req) (hps : ∀ t, ∀ r ∈ ps t, ReqOk r)
    (σ : List Nat) (hW : (IW.run s σ (init ps)).R < W) (t : Nat) (r : Req) (b : Nat) (acc : List Nat)
    (hpc : ((IW.run s σ (init ps)).th t).pc = .pub r b acc) : (IW.run s σ (init ps)).Y = b := by
  have hi := inv_run σ (inv_init s ps hps) hW
  exact (hi.csY t b r.len (by simp [hpc, Pc.inCS]) (by simp [hpc, Pc.ticket])).symm

end Orx.GenThms.Proto
