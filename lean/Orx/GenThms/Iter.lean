import Orx.GenThms.Basic
import Orx.Generated.ArithIter
import Orx.IW.Full
namespace Orx.GenThms
open Orx Orx.RS Orx.Gen

/-! ## the wrapper over an arbitrary `Iterator`: its non-blocking functions (`src/iter/implementors/iter.rs`)

The ticket protocol itself (`progress_and_get_begin_idx`, `get`, `fetch_n`, `BufferIter::pull`) is the hand-written
small-step model `IW/Core.lean`; what is translated here are the functions without a loop: the length query, the
skip, and the two publication steps the protocol model performs at its pcs `setC`/`skp` and `pub`. -/

def iter (init : Option Nat) : IterSelf := { initial_len := init }

/-- state of the wrapper: reserved counter `R`, yielded counter `Y`, flag `C` -/
def ist (R Y : Nat) (C : Bool) (evs : List Ev) : St := { ctr := R, yld := Y, completed := C, evs := evs }

/-- **`try_get_len` as in the source** = the model's query (`IWF.stepAux`, `lenOut`): a `SeqCst` load of `completed`; if
it is set `Some(0)`; otherwise, for a source that claimed an exact length, an `Acquire` load `R` of the reserved counter
and `claimed - R` clamped at 0 (no underflow); otherwise `None`. -/
theorem iter_try_get_len (init : Option Nat) (R Y : Nat) (C : Bool) (evs : List Ev) :
    Iter.try_get_len (iter init) (ist R Y C evs) =
      .ok (IWF.lenOut init C R)
        (ist R Y C (evs ++ [.ld .C .seqcst (if C then 1 else 0)] ++
          (if C = false ∧ init.isSome then [.ld .R .acquire R] else []))) := by
  cases C
  · cases init with
    | none =>
      simp [Iter.try_get_len, iter, ist, bind, M.bind, pure, M.pure, m_load, MLoad.m_load, m_map, MMap.m_map, IWF.lenOut]
    | some l =>
      simp only [Iter.try_get_len, Iter.counter, Counter.current, iter, ist, bind, M.bind, pure, M.pure, m_load, MLoad.m_load,
        m_map, MMap.m_map, IWF.lenOut, m_cmp, op_sub, St.get_R]
      by_cases h1 : R < l
      · have : R ≤ l := by omega
        simp [h1, this, M.pure, M.bind]
      · by_cases h2 : R = l <;> simp [h1, h2, M.pure, M.bind]
  · simp [Iter.try_get_len, iter, ist, bind, M.bind, pure, M.pure, m_load, MLoad.m_load, IWF.lenOut]

/-- `skip_to_end` = `early_exit` = one `SeqCst` store of `true` into `completed` (the model's pc `skp`); the counters
are not touched (the defect D2 stored `usize::MAX` into the ticket dispenser here) -/
theorem iter_skip_to_end (init : Option Nat) (R Y : Nat) (C : Bool) (evs : List Ev) :
    Iter.skip_to_end (iter init) (ist R Y C evs) = .ok () (ist R Y true (evs ++ [.st .C .seqcst 1])) := by
  simp [Iter.skip_to_end, Iter.early_exit, iter, ist, bind, M.bind, pure, M.pure, m_store, MStore.m_store]

theorem iter_mark_completed (init : Option Nat) (R Y : Nat) (C : Bool) (evs : List Ev) :
    Iter.mark_completed (iter init) (ist R Y C evs) = .ok () (ist R Y true (evs ++ [.st .C .seqcst 1])) := by
  simp [Iter.mark_completed, iter, ist, bind, M.bind, pure, M.pure, m_store, MStore.m_store]

/-- the publication step of a buffered pull: one `AcqRel` `fetch_add` on `yielded` (the model's pc `pub`) -/
theorem iter_progress_yielded (init : Option Nat) (R Y n : Nat) (C : Bool) (evs : List Ev) :
    Iter.progress_yielded_counter (iter init) n (ist R Y C evs) =
      .ok Y (ist R (wrapAdd Y n) C (evs ++ [.faa .Y .acqrel Y n])) := by
  simp [Iter.progress_yielded_counter, Counter.fetch_and_add, iter, ist, bind, M.bind, pure, M.pure, m_fetch_add]

/-- **`into_seq_iter` of the wrapper hands the wrapped iterator back as it is**: `self.iter.into_inner()` — no atomic access, no
poll, nothing skipped or replayed (whatever the wrapped iterator has not yet yielded is what it yields next) -/
theorem iter_into_seq_iter (init : Option Nat) (s : St) :
    Iter.into_seq_iter (iter init) s = .ok {} s := rfl

/-- `AtomicIter::counter` of the wrapper is the *reserved* counter (the one `try_get_len` and clones of the trait read) -/
theorem iter_counter_is_reserved (init : Option Nat) (s : St) :
    Iter.counter (iter init) s = .ok { current := { loc := .R } } s := rfl

end Orx.GenThms
