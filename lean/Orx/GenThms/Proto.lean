import Orx.Generated.ProtoIter
/-! # The blocking functions of the wrapper, as translated from the source, are these trees

`Generated/ProtoIter.lean` is the translation of `progress_and_get_begin_idx`, `get`, `fetch_one`, `fetch_n`,
`next_id_and_value`, `next_chunk`, `skip_to_end` (and of `AtomicCounter`, `CompleteOnUnwind`) of the current source into
program trees (`RS/Prog.lean`). The theorems here compute them: for every fuel, every chunk size and every value the
environment may return, the translated function **is** the tree written out below — `tGetLoop`, `tWaitLoop`, `tCollect`,
`tPublish`: which atomic is accessed, with which ordering, in which order, and what is returned. `GenThms/ProtoSim.lean`
shows that these trees are exactly the thread-local transition system of the protocol model `IW/Core.lean`. -/
set_option linter.unusedSimpArgs false
namespace Orx.GenThms.Proto
open Orx Orx.RSP Orx.GenP
open Orx.RS (AtomicH CounterSelf AtomicBoolH Next NextChunk Ord3)

@[simp] theorem bind_ite {α β : Type} (c : Prop) [Decidable c] (a b : Prog α) (f : α → Prog β) :
    Prog.bind (if c then a else b) f = if c then Prog.bind a f else Prog.bind b f := by split <;> rfl
@[simp] theorem guarded_ite {α : Type} (c : Prop) [Decidable c] (g : Prog Unit) (a b : Prog α) :
    Prog.guarded g (if c then a else b) = if c then Prog.guarded g a else Prog.guarded g b := by split <;> rfl

theorem bind_ret {α : Type} (m : Prog α) : Prog.bind m Prog.ret = m := by
  induction m with
  | ret a => rfl
  | faa l o n k ih => simp only [Prog.bind]; congr 1; funext v; exact ih v
  | ldN l o k ih => simp only [Prog.bind]; congr 1; funext v; exact ih v
  | ldB l o k ih => simp only [Prog.bind]; congr 1; funext v; exact ih v
  | stB l o v k ih => simp only [Prog.bind]; congr 1
  | enter k ih => simp only [Prog.bind]; congr 1
  | exit k ih => simp only [Prog.bind]; congr 1; funext v; exact ih v
  | panic m => rfl
  | spin => rfl

theorem bind_assoc {α β γ : Type} (m : Prog α) (f : α → Prog β) (g : β → Prog γ) :
    Prog.bind (Prog.bind m f) g = Prog.bind m (fun x => Prog.bind (f x) g) := by
  induction m with
  | ret a => rfl
  | faa l o n k ih => simp only [Prog.bind]; congr 1; funext v; exact ih v
  | ldN l o k ih => simp only [Prog.bind]; congr 1; funext v; exact ih v
  | ldB l o k ih => simp only [Prog.bind]; congr 1; funext v; exact ih v
  | stB l o v k ih => simp only [Prog.bind]; congr 1
  | enter k ih => simp only [Prog.bind]; congr 1
  | exit k ih => simp only [Prog.bind]; congr 1; funext v; exact ih v
  | panic m => rfl
  | spin => rfl

def iter0 : IterSelf := {}
@[simp] theorem iter0_C : iter0.completed.loc = .C := rfl
@[simp] theorem iter0_R : iter0.reserved_counter.current.loc = .R := rfl
@[simp] theorem iter0_Y : iter0.yielded_counter.current.loc = .Y := rfl

/-- what the critical section of `get` does after it has found `completed` unset: poll, then publish or mark the end -/
def tPollOne {β : Type} (K : Option Nat → Prog β) : Prog β :=
  .enter (.exit fun r => match r with
    | .some v => .faa .Y .acqrel 1 (fun _ => K (some v))
    | .none => .stB .C .seqcst true (K none)
    | .panic => .stB .C .seqcst true (.panic "next"))

/-- one iteration of the spin loop of `get` -/
def nfGetBody (b : Nat) : PF (Option Nat) Unit :=
  .ldN .Y .acquire fun y =>
    if b < y then .ret (.retn none)
    else if b = y then .ldB .C .seqcst fun c =>
      if c then .ret (.retn none) else tPollOne (fun o => .ret (.retn o))
    else .ldB .C .relaxed fun c => if c then .ret (.retn none) else .ret (.norm ())

theorem get_loop1 (k b : Nat) : Iter.get.loop1 k iter0 b = nfGetBody b := by
  unfold Iter.get.loop1 nfGetBody
  simp only [Counter.current, bind, PF.bind, Prog.bind, m_fn, pure, m_load, MLoad.m_load, iter0_C, iter0_Y, m_cmp]
  congr 1; funext y
  by_cases h1 : b < y
  · simp [h1, m_return, Prog.bind]
  · by_cases h2 : b = y
    · subst h2
      simp [Prog.bind, m_return, Iter.complete_on_unwind, m_fn, m_guarded, Guard.drop, m_store, Iter.mut_iter, m_next,
        Prog.guarded, Guard.disarm, m_is_some, Counter.fetch_and_increment, m_fetch_add, tPollOne, bind, PF.bind, pure]
      congr 1; funext c
      cases c
      · simp [Prog.bind, Prog.guarded]
        congr 1; funext r
        cases r <;> simp [Prog.bind, Prog.guarded]
      · simp [Prog.bind]
    · simp [h1, h2, Prog.bind, m_return, bind, PF.bind, pure]

/-- the spin loop of `get` as a tree: `k` iterations of fuel; `K` is what the caller does with the result -/
def tGetLoop {β : Type} (K : Option Nat → Prog β) : Nat → Nat → Prog β
  | 0, _ => .spin
  | k + 1, b => .ldN .Y .acquire fun y =>
      if b < y then K none
      else if b = y then .ldB .C .seqcst fun c => if c then K none else tPollOne K
      else .ldB .C .relaxed fun c => if c then K none else tGetLoop K k b

theorem loop_get (k b : Nat) :
    m_loop k (nfGetBody b) = tGetLoop (fun o => .ret (.retn o)) k b := by
  induction k with
  | zero => rfl
  | succ k ih =>
    rw [m_loop, tGetLoop]
    conv => lhs; arg 1; unfold nfGetBody
    simp only [Prog.bind]
    congr 1; funext y
    by_cases h1 : b < y
    · simp [h1, Prog.bind]
    · by_cases h2 : b = y
      · subst h2
        simp [Prog.bind, tPollOne]
        congr 1; funext c
        cases c
        · simp [Prog.bind]
          congr 1; funext r
          cases r <;> simp [Prog.bind]
        · simp [Prog.bind]
      · simp [h1, h2, Prog.bind]
        congr 1; funext c
        cases c <;> simp [Prog.bind, ih]

theorem bind_tPollOne {β γ : Type} (K : Option Nat → Prog β) (f : β → Prog γ) :
    Prog.bind (tPollOne K) f = tPollOne (fun o => Prog.bind (K o) f) := by
  simp only [tPollOne, Prog.bind]
  congr 1; congr 1; funext r
  cases r <;> simp [Prog.bind]

theorem bind_tGetLoop {β γ : Type} (K : Option Nat → Prog β) (f : β → Prog γ) (k b : Nat) :
    Prog.bind (tGetLoop K k b) f = tGetLoop (fun o => Prog.bind (K o) f) k b := by
  induction k with
  | zero => rfl
  | succ k ih =>
    simp only [tGetLoop, Prog.bind]
    congr 1; funext y
    by_cases h1 : b < y
    · simp [h1]
    · by_cases h2 : b = y
      · subst h2
        simp [Prog.bind]
        congr 1; funext c
        cases c <;> simp [bind_tPollOne]
      · simp [h1, h2, Prog.bind]
        congr 1; funext c
        cases c <;> simp [ih]

/-- **`get` as in the source** is: one `SeqCst` load of `completed`, then the spin loop -/
theorem get_tree {ρ' : Type} (k b : Nat) :
    (Iter.get k iter0 b : PF ρ' _) =
      .ldB .C .seqcst fun c => if c then .ret (.norm none) else tGetLoop (fun o => .ret (.norm o)) k b := by
  unfold Iter.get
  simp only [bind, PF.bind, Prog.bind, m_fn, pure, m_load, MLoad.m_load, iter0_C, m_return, get_loop1, loop_get]
  congr 1; funext c
  cases c
  · simp [Prog.bind, bind_tGetLoop, m_unreachable]
  · simp [Prog.bind]

/-- **`fetch_one` as in the source** (`AtomicIter::fetch_one` over the wrapper's `counter`/`get`): reserve one position on
`R`, look at `completed`, spin until the position's turn, poll, publish -/
theorem fetch_one_tree {ρ' : Type} (k : Nat) :
    (Iter.fetch_one k iter0 : PF ρ' _) =
      .faa .R .acqrel 1 fun b => .ldB .C .seqcst fun c =>
        if c then .ret (.norm none)
        else tGetLoop (fun o => .ret (.norm (o.map fun v => ({ idx := b, value := v } : Next Nat)))) k b := by
  unfold Iter.fetch_one
  simp only [bind, PF.bind, Prog.bind, m_fn, pure, Iter.counter, Counter.fetch_and_increment, m_fetch_add, iter0_R, get_tree]
  congr 1; funext b
  congr 1; funext c
  cases c
  · simp [Prog.bind, bind_tGetLoop]
    congr 1; funext o
    cases o <;> simp [Prog.bind, m_map, MMap.m_map, pure, bind, PF.bind]
  · simp [Prog.bind, m_map, MMap.m_map, pure]


/-! ## `progress_and_get_begin_idx` and `fetch_n` -/

/-- one iteration of the spin loop of `progress_and_get_begin_idx` -/
def nfWaitBody (b : Nat) : PF (Option Nat) Unit :=
  .ldN .Y .acquire fun y =>
    if b < y then .ret (.retn none)
    else if b = y then .ldB .C .seqcst fun c => if c then .ret (.retn none) else .ret (.retn (some b))
    else .ldB .C .relaxed fun c => if c then .ret (.retn none) else .ret (.norm ())

theorem pgb_loop1 (k b : Nat) : Iter.progress_and_get_begin_idx.loop1 k iter0 b = nfWaitBody b := by
  unfold Iter.progress_and_get_begin_idx.loop1 nfWaitBody
  simp only [Counter.current, bind, PF.bind, Prog.bind, m_fn, pure, m_load, MLoad.m_load, iter0_C, iter0_Y, m_cmp]
  congr 1; funext y
  by_cases h1 : b < y
  · simp [h1, m_return, Prog.bind]
  · by_cases h2 : b = y
    · subst h2
      simp [Prog.bind, m_return, bind, PF.bind, pure]
      congr 1; funext c
      cases c <;> simp [Prog.bind]
    · simp [h1, h2, Prog.bind, m_return, bind, PF.bind, pure]

/-- the spin loop of `progress_and_get_begin_idx` as a tree: `K (some b)` when it is the turn of position `b` and
`completed` is unset, `K none` when the iteration is over -/
def tWaitLoop {β : Type} (K : Option Nat → Prog β) : Nat → Nat → Prog β
  | 0, _ => .spin
  | k + 1, b => .ldN .Y .acquire fun y =>
      if b < y then K none
      else if b = y then .ldB .C .seqcst fun c => if c then K none else K (some b)
      else .ldB .C .relaxed fun c => if c then K none else tWaitLoop K k b

theorem loop_wait (k b : Nat) :
    m_loop k (nfWaitBody b) = tWaitLoop (fun o => .ret (.retn o)) k b := by
  induction k with
  | zero => rfl
  | succ k ih =>
    rw [m_loop, tWaitLoop]
    conv => lhs; arg 1; unfold nfWaitBody
    simp only [Prog.bind]
    congr 1; funext y
    by_cases h1 : b < y
    · simp [h1, Prog.bind]
    · by_cases h2 : b = y
      · subst h2
        simp [Prog.bind]
      · simp [h1, h2, Prog.bind]
        congr 1; funext c
        cases c <;> simp [Prog.bind, ih]

theorem bind_tWaitLoop {β γ : Type} (K : Option Nat → Prog β) (f : β → Prog γ) (k b : Nat) :
    Prog.bind (tWaitLoop K k b) f = tWaitLoop (fun o => Prog.bind (K o) f) k b := by
  induction k with
  | zero => rfl
  | succ k ih =>
    simp only [tWaitLoop, Prog.bind]
    congr 1; funext y
    by_cases h1 : b < y
    · simp [h1]
    · by_cases h2 : b = y
      · subst h2
        simp [Prog.bind]
      · simp [h1, h2, Prog.bind]
        congr 1; funext c
        cases c <;> simp [ih]

/-- **`progress_and_get_begin_idx` as in the source**: reserve `n` positions on `R`, look at `completed`, spin -/
theorem pgb_tree {ρ' : Type} (k n : Nat) :
    (Iter.progress_and_get_begin_idx k iter0 n : PF ρ' _) =
      .faa .R .acqrel n fun b => .ldB .C .seqcst fun c =>
        if c then .ret (.norm none) else tWaitLoop (fun o => .ret (.norm o)) k b := by
  unfold Iter.progress_and_get_begin_idx
  simp only [bind, PF.bind, Prog.bind, m_fn, pure, m_load, MLoad.m_load, iter0_C, iter0_R, m_return, pgb_loop1, loop_wait,
    Iter.counter, Counter.fetch_and_add, m_fetch_add]
  congr 1; funext b
  congr 1; funext c
  cases c
  · simp [Prog.bind, bind_tWaitLoop, m_unreachable]
  · simp [Prog.bind]


/-- one poll of the wrapped iterator inside `fetch_n`'s lazy pipeline
`(b..e).map(|_| iter.next()).take_while(|x| x.is_some()).map(|x| x.expect(..))` -/
def stepNF {ρ : Type} : PF ρ (Option Nat) :=
  .enter (.exit fun r => match r with
    | .some v => .ret (.norm (some v))
    | .none => .ret (.norm none)
    | .panic => .panic "next")

/-- the pulls of `fetch_n` as a tree: at most `m` more polls; `REST` is what follows with the collected buffer; a panic of
the wrapped iterator runs the guard (`completed := true`) and unwinds -/
def tCollect {β : Type} (REST : List Nat → Prog β) : Nat → List Nat → Prog β
  | 0, acc => REST acc
  | m + 1, acc => .enter (.exit fun r => match r with
      | .some v => tCollect REST m (acc ++ [v])
      | .none => REST acc
      | .panic => .stB .C .seqcst true (.panic "next"))

theorem stepNF_bind {ρ β : Type} (f : Flow ρ (Option Nat) → Prog β) :
    Prog.bind (stepNF : PF ρ _) f = .enter (.exit fun r => match r with
      | .some v => f (.norm (some v))
      | .none => f (.norm none)
      | .panic => .panic "next") := by
  simp only [stepNF, Prog.bind]
  congr 1; congr 1; funext r
  cases r <;> simp [Prog.bind]

theorem collect_tree {ρ β : Type} (REST : Flow ρ (List Nat) → Prog β) (m i : Nat) (acc : List Nat) :
    Prog.bind (Prog.guarded (.stB .C .seqcst true (.ret ())) (collectAux (fun _ => (stepNF : PF ρ _)) m i acc)) REST
      = tCollect (fun l => REST (.norm l)) m acc := by
  induction m generalizing i acc with
  | zero => simp [collectAux, tCollect, pure, Prog.guarded, Prog.bind]
  | succ m ih =>
    rw [collectAux, tCollect]
    simp only [bind, PF.bind]
    rw [stepNF_bind]
    simp only [Prog.guarded, Prog.bind]
    congr 1; congr 1; funext r
    cases r with
    | some v => simpa [Prog.bind, Prog.guarded] using ih (i + 1) (acc ++ [v])
    | none => simp [Prog.bind, Prog.guarded, pure]
    | panic => simp [Prog.bind, Prog.guarded]

/-- what `fetch_n` does with the collected buffer: mark the end if the chunk is short, publish `n` on `yielded` (asserting
that nobody else did in between), return the chunk (`None` if empty) -/
def tPublish {ρ : Type} (n b : Nat) (acc : List Nat) : PF ρ (Option (NextChunk (List Nat))) :=
  let pub : PF ρ (Option (NextChunk (List Nat))) :=
    match acc.length with
    | 0 => .faa .Y .acqrel n fun old => if old = b then .ret (.norm none) else .panic "assert_eq"
    | _ + 1 => .faa .Y .acqrel n fun old =>
        if old = b then .ret (.norm (some { begin_idx := b, values := acc })) else .panic "assert_eq"
  if acc.length < n then .stB .C .seqcst true pub else pub

/-- the shape in which the pulls appear in the unfolded `fetch_n`: whatever the step function, the trailing identity and
the two continuations are, as long as they are what they should be -/
theorem collect_general {ρ β γ : Type} (STEP : Nat → PF ρ (Option Nat)) (hS : ∀ i, STEP i = stepNF)
    (idF : Flow ρ (List Nat) → Prog (Flow ρ (List Nat))) (hid : ∀ x, idF x = .ret x)
    (F1 : Flow ρ (List Nat) → Prog β) (F2 : β → Prog γ) (T : List Nat → Prog γ)
    (hF : ∀ l, Prog.bind (F1 (.norm l)) F2 = T l) (m i : Nat) (acc : List Nat) :
    Prog.bind (Prog.bind (Prog.guarded (.stB .C .seqcst true (.ret ())) (Prog.bind (collectAux STEP m i acc) idF)) F1) F2
      = tCollect T m acc := by
  have h1 : STEP = fun _ => stepNF := funext hS
  have h2 : idF = Prog.ret := funext hid
  subst h1 h2
  rw [bind_ret, bind_assoc, collect_tree]
  congr 1; funext l
  exact hF l

/-- **`fetch_n` as in the source** -/
theorem fetch_n_tree {ρ' : Type} (k n : Nat) :
    (Iter.fetch_n k iter0 n : PF ρ' _) =
      if n = 0 then .ret (.norm none)
      else .faa .R .acqrel n fun b => .ldB .C .seqcst fun c =>
        if c then .ret (.norm none)
        else tWaitLoop (fun o => match o with
          | none => .ret (.norm none)
          | some b' => tCollect (tPublish n b') (satAdd b' n - b') []) k b := by
  unfold Iter.fetch_n
  by_cases hn : n = 0
  · simp [hn, op_eq, bind, PF.bind, Prog.bind, m_fn, pure, m_return]
  · simp only [hn, if_false, op_eq, bind, PF.bind, Prog.bind, m_fn, pure, m_return, pgb_tree, decide_false, Bool.false_eq_true]
    congr 1; funext b
    congr 1; funext c
    cases c
    · simp only [Bool.false_eq_true, if_false, bind_tWaitLoop]
      congr 1; funext o
      cases o with
      | none => simp [Prog.bind, m_and_then, pure]
      | some b' =>
        simp only [Prog.bind, m_and_then, Iter.mut_iter, m_fn, pure, bind, PF.bind, m_saturating_add, Iter.complete_on_unwind,
          m_guarded, Guard.drop, m_store, iter0_C, m_range, m_map, MMap.m_map, m_take_while, m_collect, if_true]
        apply collect_general
        · intro i
          simp only [m_next, stepNF, Prog.bind, m_is_some, m_expect, pure]
          congr 1; congr 1; funext r
          cases r <;> simp [Prog.bind]
        · intro x; cases x <;> rfl
        · intro l
          simp only [Guard.disarm, Guard.drop, m_fn, bind, PF.bind, Prog.bind, pure, m_len, op_lt, m_into_iter, m_assert_eq,
            Iter.progress_yielded_counter, Counter.fetch_and_add, m_fetch_add, iter0_Y, tPublish, m_store]
          by_cases hl : l.length < n
          · cases hlen : l.length with
            | zero =>
              simp [hlen, hn, Prog.bind, Nat.pos_of_ne_zero hn]
            | succ q =>
              have hq : q + 1 < n := by omega
              simp [hlen, hq, Prog.bind]
          · cases hlen : l.length with
            | zero => omega
            | succ q =>
              have hq : ¬ q + 1 < n := by omega
              simp [hlen, hq, Prog.bind]
    · simp [Prog.bind, m_and_then, pure]


/-! ## The remaining (loop-free) entry points -/

theorem skip_to_end_tree {ρ' : Type} (k : Nat) :
    (Iter.skip_to_end k iter0 : PF ρ' _) = .stB .C .seqcst true (.ret (.norm ())) := by
  simp [Iter.skip_to_end, Iter.early_exit, m_fn, bind, PF.bind, Prog.bind, pure, m_store]

theorem next_id_and_value_tree {ρ' : Type} (k : Nat) :
    (Iter.next_id_and_value k iter0 : PF ρ' _) =
      .faa .R .acqrel 1 fun b => .ldB .C .seqcst fun c =>
        if c then .ret (.norm none)
        else tGetLoop (fun o => .ret (.norm (o.map fun v => ({ idx := b, value := v } : Next Nat)))) k b := by
  unfold Iter.next_id_and_value
  simp only [m_fn, bind, PF.bind, pure, fetch_one_tree, Prog.bind]
  congr 1; funext b; congr 1; funext c
  cases c
  · simp [bind_tGetLoop, Prog.bind]
  · simp [Prog.bind]

theorem bind_tCollect {β γ : Type} (REST : List Nat → Prog β) (f : β → Prog γ) (m : Nat) (acc : List Nat) :
    Prog.bind (tCollect REST m acc) f = tCollect (fun l => Prog.bind (REST l) f) m acc := by
  induction m generalizing acc with
  | zero => rfl
  | succ m ih =>
    simp only [tCollect, Prog.bind]
    congr 1; congr 1; funext r
    cases r with
    | some v => exact ih _
    | none => rfl
    | panic => rfl

theorem next_chunk_tree {ρ' : Type} (k n : Nat) :
    (Iter.next_chunk k iter0 n : PF ρ' _) =
      if n = 0 then .ret (.norm none)
      else .faa .R .acqrel n fun b => .ldB .C .seqcst fun c =>
        if c then .ret (.norm none)
        else tWaitLoop (fun o => match o with
          | none => .ret (.norm none)
          | some b' => tCollect (tPublish n b') (satAdd b' n - b') []) k b := by
  unfold Iter.next_chunk
  simp only [m_fn, bind, PF.bind, pure, fetch_n_tree]
  by_cases hn : n = 0
  · simp [hn, Prog.bind]
  · simp only [hn, if_false, Prog.bind]
    congr 1; funext b; congr 1; funext c
    cases c
    · simp only [Bool.false_eq_true, if_false, bind_tWaitLoop]
      congr 1; funext o
      cases o with
      | none => simp [Prog.bind]
      | some b' =>
        simp only [bind_tCollect]
        congr 1; funext l
        unfold tPublish
        by_cases hl : l.length < n <;> cases hlen : l.length <;> simp [hl, hlen, Prog.bind] <;>
          (funext a; by_cases ha : a = b' <;> simp [ha, Prog.bind])
    · simp [Prog.bind]

end Orx.GenThms.Proto
