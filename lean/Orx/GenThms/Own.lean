import Orx.RS.Own
import Orx.Generated.Own
import Orx.KS
/-! # The owner-side code of the consuming kinds, as translated from the source (`Generated/Own.lean`)

For **every** length, capacity, counter value, chunk request and injected destructor panic: the translated `Taken`
(`new` / `next` / `size_hint` / `drop`), `take_one`, `get`, `fetch_one`, `take_slice`, `fetch_n`, `early_exit`,
`split_off_right`, `into_seq_iter` and `Drop::drop` of `ConIterOfVec` / `ConIterOfArray` never fault (no element is read
or destroyed twice, no pointer leaves its allocation, no `usize` overflow) and have exactly the effect on the ownership
state that the hand-written model (`KS.stepRest`, `KS.owner`, the allocation ledger of `Props/C15.lean`) gives them. -/
namespace Orx.GenThms.Own
open Orx Orx.RSO Orx.GenO
open Orx.RS (Fault AtomicH CounterSelf Ord3 Next NextChunk)

/-! ## lists of positions -/

theorem rangeList_nil (b e : Nat) (h : e ≤ b) : rangeList b e = [] := by
  have : e - b = 0 := by omega
  simp [rangeList, this]

theorem rangeList_cons (b e : Nat) (h : b < e) : rangeList b e = b :: rangeList (b + 1) e := by
  unfold rangeList
  have : e - b = (e - (b + 1)) + 1 := by omega
  rw [this, List.range_succ_eq_map]
  simp only [List.map_cons, List.map_map, Nat.zero_add, List.cons.injEq, true_and]
  apply List.map_congr_left
  intro a _
  simp only [Function.comp]; omega

theorem mem_rangeList (b e x : Nat) : x ∈ rangeList b e ↔ b ≤ x ∧ x < e := by
  unfold rangeList
  simp only [List.mem_map, List.mem_range]
  constructor
  · rintro ⟨a, ha, rfl⟩; omega
  · intro h; exact ⟨x - b, by omega, by omega⟩

theorem rangeList_length (b e : Nat) : (rangeList b e).length = e - b := by simp [rangeList]

theorem rangeList_append (a b c : Nat) (h1 : a ≤ b) (h2 : b ≤ c) : rangeList a b ++ rangeList b c = rangeList a c := by
  unfold rangeList
  have : c - a = (b - a) + (c - b) := by omega
  rw [this, List.range_add, List.map_append, List.map_map]
  congr 1
  apply List.map_congr_left
  intro x _
  simp only [Function.comp]; omega

theorem rangeList_snoc (b e : Nat) (h : b ≤ e) : rangeList b (e + 1) = rangeList b e ++ [e] := by
  rw [← rangeList_append b e (e + 1) h (by omega), rangeList_cons e (e + 1) (by omega), rangeList_nil (e + 1) (e + 1) (by omega)]

/-! ## destruction -/

/-- the fault-injection counter after `n` destructions -/
def dpAfter (d : Option Nat) (n : Nat) : Option Nat :=
  match d with
  | none => none
  | some k => if k < n then none else some (k - n)

/-- whether one of the next `n` destructions panics -/
def dpHit (d : Option Nat) (n : Nat) : Bool :=
  match d with
  | none => false
  | some k => decide (k < n)

theorem dpAfter_zero (d : Option Nat) : dpAfter d 0 = d := by cases d <;> simp [dpAfter]
theorem dpHit_zero (d : Option Nat) : dpHit d 0 = false := by cases d <;> simp [dpHit]

theorem tick_after (d : Option Nat) (n : Nat) : dpAfter (tick d).1 n = dpAfter d (n + 1) := by
  rcases d with _ | k
  · simp [tick, dpAfter]
  · cases k with
    | zero => simp [tick, dpAfter]
    | succ k =>
      simp only [tick, dpAfter]
      by_cases h : k < n
      · have : k + 1 < n + 1 := by omega
        simp [h, this]
      · have : ¬ k + 1 < n + 1 := by omega
        simp [h, this]

theorem tick_hit (d : Option Nat) (n : Nat) : ((tick d).2 || dpHit (tick d).1 n) = dpHit d (n + 1) := by
  rcases d with _ | k
  · simp [tick, dpHit]
  · cases k with
    | zero => simp [tick, dpHit]
    | succ k => simp [tick, dpHit]

/-- destroying positions that are all different, not yet destroyed (and, in place, not vacated) never faults: all of them are
destroyed, in order, whichever of them panics -/
theorem destroy_ok (ip : Bool) : ∀ (ps : List Nat) (s : OSt) (p : Bool), ps.Nodup →
    (∀ x ∈ ps, x ∉ s.dr ∧ (ip = true → x ∉ s.vac)) →
    destroy ip ps s p = some ({ s with dr := s.dr ++ ps, dpanic := dpAfter s.dpanic ps.length }, p || dpHit s.dpanic ps.length)
  | [], s, p, _, _ => by simp [destroy, dpAfter_zero, dpHit_zero]
  | x :: xs, s, p, hn, hf => by
    have hx := hf x (by simp)
    have hn' := List.nodup_cons.mp hn
    have hc : ¬ (x ∈ s.dr ∨ (ip = true ∧ x ∈ s.vac)) := by
      rintro (h | ⟨h1, h2⟩)
      · exact hx.1 h
      · exact hx.2 h1 h2
    unfold destroy
    simp only [hc, ↓reduceIte]
    rw [destroy_ok ip xs _ _ hn'.2]
    · simp only [List.length_cons, tick_after, Option.some.injEq, Prod.mk.injEq]
      refine ⟨by simp [List.append_assoc], ?_⟩
      rw [Bool.or_assoc, tick_hit]
    · intro y hy
      have hyx : y ≠ x := fun h => hn'.1 (h ▸ hy)
      have := hf y (by simp [hy])
      simp only [List.mem_append, List.mem_singleton, not_or]
      exact ⟨⟨this.1, hyx⟩, this.2⟩

theorem rangeList_nodup (b e : Nat) : (rangeList b e).Nodup := by
  unfold rangeList
  exact List.Pairwise.map _ (fun a b (h : a ≠ b) => by omega) List.nodup_range

/-- no position of `[lo, hi)` has been moved out of the storage or destroyed -/
def Untouched (s : OSt) (lo hi : Nat) : Prop := ∀ p, lo ≤ p → p < hi → p ∉ s.vac ∧ p ∉ s.dr

theorem destroy_range (ip : Bool) (s : OSt) (lo hi : Nat) (h : Untouched s lo hi) :
    destroy ip (rangeList lo hi) s false =
      some ({ s with dr := s.dr ++ rangeList lo hi, dpanic := dpAfter s.dpanic (hi - lo) }, dpHit s.dpanic (hi - lo)) := by
  rw [destroy_ok ip _ s false (rangeList_nodup lo hi)]
  · simp [rangeList_length]
  · intro x hx
    have := (mem_rangeList lo hi x).mp hx
    exact ⟨(h x this.1 this.2).2, fun _ => (h x this.1 this.2).1⟩

/-! ## `AtomicCounter` -/

theorem counter_current (s : OSt) (f : Nat) (ρ' : Type) :
    (Counter.current f ({} : CounterSelf) : PF ρ' _) s = .ok (.norm s.ctr) { s with evs := s.evs ++ [.ld (.ctr 0) .acquire s.ctr] } := rfl
theorem counter_faa (s : OSt) (f n : Nat) (ρ' : Type) :
    (Counter.fetch_and_add f ({} : CounterSelf) n : PF ρ' _) s =
      .ok (.norm s.ctr) { s with ctr := wrapAdd s.ctr n, evs := s.evs ++ [.faa (.ctr 0) .acqrel s.ctr n] } := rfl
theorem counter_inc (s : OSt) (f : Nat) (ρ' : Type) :
    (Counter.fetch_and_increment f ({} : CounterSelf) : PF ρ' _) s =
      .ok (.norm s.ctr) { s with ctr := wrapAdd s.ctr 1, evs := s.evs ++ [.faa (.ctr 0) .acqrel s.ctr 1] } := rfl
theorem counter_swap (s : OSt) (f v : Nat) (ρ' : Type) :
    (Counter.swap f ({} : CounterSelf) v : PF ρ' _) s =
      .ok (.norm s.ctr) { s with ctr := v, evs := s.evs ++ [.swp (.ctr 0) .acqrel s.ctr v] } := rfl

/-! ## `Taken` (taken.rs): the owning iterator over a chunk -/

/-- a chunk iterator over the storage positions `[b, b + len)` of an allocation of `cap` elements, `idx` of them taken -/
def taken (cap b len idx : Nat) : Taken := ⟨⟨cap, b⟩, len, idx⟩

theorem taken_new (cap b len f : Nat) (s : OSt) (ρ' : Type) :
    (Taken.new f ⟨cap, b⟩ len : PF ρ' _) s = .ok (.norm (taken cap b len 0)) s := rfl

/-- `next()` on a chunk with elements left: the element at `b + idx` is moved out of the storage, the cursor advances -/
theorem taken_next_some (cap b len idx f : Nat) (s : OSt) (ρ' : Type) (hi : idx < len) (hc : b + len ≤ cap) (hw : cap < W)
    (hu : Untouched s (b + idx) (b + len)) :
    (Taken.next f (taken cap b len idx) : PF ρ' _) s =
      .ok (.norm (some (b + idx), taken cap b len (idx + 1))) { s with vac := s.vac ++ [b + idx] } := by
  have h1 : b + idx ≤ cap := by omega
  have h2 : b + idx < cap := by omega
  have h3 := hu (b + idx) (by omega) (by omega)
  have h4 : idx + 1 < W := by omega
  simp [Taken.next, taken, m_fn, bind, PF.bind, pure, op_lt, hi, m_add, h1, m_read, h2, h3.1, h3.2, op_add, h4, m_the]

/-- `next()` on an exhausted chunk: `None`, nothing changes -/
theorem taken_next_none (cap b len idx f : Nat) (s : OSt) (ρ' : Type) (hi : ¬ idx < len) :
    (Taken.next f (taken cap b len idx) : PF ρ' _) s = .ok (.norm (none, taken cap b len idx)) s := by
  simp [Taken.next, taken, m_fn, bind, PF.bind, pure, op_lt, hi, m_the]

theorem taken_size_hint (cap b len idx f : Nat) (s : OSt) (ρ' : Type) (hi : idx ≤ len) :
    (Taken.size_hint f (taken cap b len idx) : PF ρ' _) s = .ok (.norm (len - idx, some (len - idx))) s := by
  simp [Taken.size_hint, taken, m_fn, bind, PF.bind, pure, op_sub, hi]

/-- the state after dropping a chunk of which `idx` elements were taken: the others are destroyed, in order -/
def afterTakenDrop (s : OSt) (b len idx : Nat) : OSt :=
  { s with dr := s.dr ++ rangeList (b + idx) (b + len), dpanic := dpAfter s.dpanic (len - idx) }

/-- **`Drop for Taken`**: exactly the elements not yet taken are destroyed, all of them also when one destructor panics
(then the call unwinds afterwards), and the cursor is at the end -/
theorem taken_drop (cap b len idx f : Nat) (s : OSt) (ρ' : Type) (hi : idx ≤ len) (hc : b + len ≤ cap)
    (hu : Untouched s (b + idx) (b + len)) :
    (Taken.drop f (taken cap b len idx) : PF ρ' _) s =
      if dpHit s.dpanic (len - idx) then .unwind (afterTakenDrop s b len idx)
      else .ok (.norm ((), taken cap b len len)) (afterTakenDrop s b len idx) := by
  have h1 : b + idx ≤ cap := by omega
  have h2 : b + idx + (len - idx) ≤ cap := by omega
  have h3 : b + idx + (len - idx) = b + len := by omega
  have h4 : b + len - (b + idx) = len - idx := by omega
  have hd := destroy_range true s (b + idx) (b + len) hu
  rw [h4] at hd
  simp only [Taken.drop, taken, m_fn, bind, PF.bind, pure, m_add, h1, ↓reduceIte, op_sub, hi, ptr_slice_from_raw_parts_mut, h2,
    ptr_drop_in_place, h3, hc, hd, afterTakenDrop]
  cases hh : dpHit s.dpanic (len - idx) <;> simp [cleanup]

/-- a caller that pulls `j` times from a chunk iterator through `next()` and then drops it (`for`, `take(j)`, and — through
std's default methods, `taken_overrides_only_next` — `nth`, `fold`, `count`, `for_each`): the positions it receives -/
def consumeTaken {ρ' : Type} (f : Nat) : Nat → Taken → PF ρ' (List Nat)
  | 0, t => do
    let _ ← Taken.drop f t
    pure []
  | j + 1, t => do
    let r ← Taken.next f t
    match r.1 with
    | some p => do
      let l ← consumeTaken f j r.2
      pure (p :: l)
    | none => consumeTaken f j r.2

/-- the state after `j` pulls and the drop of a chunk over `[b, b + len)` of which `idx` had been taken before -/
def afterConsume (s : OSt) (b len idx j : Nat) : OSt :=
  { s with vac := s.vac ++ rangeList (b + idx) (b + min (idx + j) len), dr := s.dr ++ rangeList (b + min (idx + j) len) (b + len),
           dpanic := dpAfter s.dpanic (len - min (idx + j) len) }

/-- **every chunk is partitioned**: whatever the number of pulls, the caller receives the first `min j (len - idx)`
remaining positions, in order, and the drop destroys exactly the others — every position of the chunk exactly once, nothing
else touched, no fault, also when one of the destructors panics -/
theorem consume_taken (cap b len f : Nat) (ρ' : Type) (hc : b + len ≤ cap) (hw : cap < W) :
    ∀ (j idx : Nat) (s : OSt), idx ≤ len → Untouched s (b + idx) (b + len) →
    (consumeTaken f j (taken cap b len idx) : PF ρ' _) s =
      if dpHit s.dpanic (len - min (idx + j) len) then .unwind (afterConsume s b len idx j)
      else .ok (.norm (rangeList (b + idx) (b + min (idx + j) len))) (afterConsume s b len idx j)
  | 0, idx, s, hi, hu => by
    have hm : min (idx + 0) len = idx := by omega
    simp only [consumeTaken, bind, PF.bind, taken_drop cap b len idx f s _ hi hc hu, afterConsume, hm, afterTakenDrop,
      rangeList_nil (b + idx) (b + idx) (Nat.le_refl _), List.append_nil]
    cases hh : dpHit s.dpanic (len - idx) <;> simp [pure]
  | j + 1, idx, s, hi, hu => by
    by_cases hlt : idx < len
    · have hu' : Untouched { s with vac := s.vac ++ [b + idx] } (b + (idx + 1)) (b + len) := by
        intro p h1 h2
        have := hu p (by omega) h2
        simp only [List.mem_append, List.mem_singleton, not_or]
        exact ⟨⟨this.1, by omega⟩, this.2⟩
      have ih := consume_taken cap b len f ρ' hc hw j (idx + 1) { s with vac := s.vac ++ [b + idx] } (by omega) hu'
      have hm : min (idx + 1 + j) len = min (idx + (j + 1)) len := by congr 1; omega
      have hle : idx + 1 ≤ min (idx + (j + 1)) len := by omega
      have hr : rangeList (b + idx) (b + min (idx + (j + 1)) len) = (b + idx) :: rangeList (b + (idx + 1)) (b + min (idx + (j + 1)) len) := by
        rw [rangeList_cons (b + idx) _ (by omega), Nat.add_assoc]
      simp only [consumeTaken, bind, PF.bind, taken_next_some cap b len idx f s _ hlt hc hw hu, ih, afterConsume, hm]
      cases hh : dpHit s.dpanic (len - min (idx + (j + 1)) len) <;> simp [pure, hr, List.append_assoc]
    · have hidx : idx = len := by omega
      have ih := consume_taken cap b len f ρ' hc hw j idx s hi hu
      have hm1 : min (idx + (j + 1)) len = len := by omega
      have hm2 : min (idx + j) len = len := by omega
      simp only [consumeTaken, bind, PF.bind, taken_next_none cap b len idx f s _ hlt, ih, afterConsume, hm1, hm2]

/-! ## `ConIterOfVec` -/

def vecS (len : Nat) : VecSelf := { vec_len := len }

/-- the iterator's cell holds the consumed vector: `len` elements in a block of `cap` elements -/
def VecCell (s : OSt) (len cap : Nat) : Prop := s.cell = some ⟨0, len, cap, 0⟩ ∧ len ≤ cap

/-- `get(i)` for an index below the length whose element is still in the storage: it is moved out (through the
`MaybeUninit` dance of `take_one`) and returned -/
theorem vec_get_some (len cap i f : Nat) (s : OSt) (ρ' : Type) (hc : VecCell s len cap) (hi : i < len) (hu : Untouched s i (i + 1)) :
    (Vec.get f (vecS len) i : PF ρ' _) s = .ok (.norm (some i)) { s with vac := s.vac ++ [i], scratch := none } := by
  have h1 : ¬ i = len := by omega
  have h2 : i ≤ cap := by have := hc.2; omega
  have h3 : i < cap := by have := hc.2; omega
  have h4 := hu i (by omega) (by omega)
  simp [Vec.get, Vec.take_one, vecS, m_fn, bind, PF.bind, pure, m_cmp, hi, m_as_mut_ptr, MAsMutPtr.m_as_mut_ptr, hc.1, m_add, h2,
    MaybeUninit_uninit, m_read, h3, h4.1, h4.2, m_write, m_assume_init]

theorem vec_get_none (len i f : Nat) (s : OSt) (ρ' : Type) (hi : ¬ i < len) :
    (Vec.get f (vecS len) i : PF ρ' _) s = .ok (.norm none) s := by
  by_cases h : i = len <;> simp [Vec.get, vecS, m_fn, bind, PF.bind, pure, m_cmp, hi, h]

/-- **`fetch_one`** = the model's atom `one`: one `fetch_add(1)`, and the element at the counter value read — if below the
length — leaves the storage for the caller -/
theorem vec_fetch_one (len cap f : Nat) (s : OSt) (ρ' : Type) (hc : VecCell s len cap) (hu : s.ctr < len → Untouched s s.ctr (s.ctr + 1)) :
    (Vec.fetch_one f (vecS len) : PF ρ' _) s =
      if s.ctr < len then
        .ok (.norm (some ⟨s.ctr, s.ctr⟩)) { s with ctr := wrapAdd s.ctr 1, evs := s.evs ++ [.faa (.ctr 0) .acqrel s.ctr 1], vac := s.vac ++ [s.ctr], scratch := none }
      else .ok (.norm none) { s with ctr := wrapAdd s.ctr 1, evs := s.evs ++ [.faa (.ctr 0) .acqrel s.ctr 1] } := by
  unfold Vec.fetch_one
  simp only [Vec.counter, vecS, m_fn, bind, PF.bind, pure, counter_inc]
  by_cases h : s.ctr < len
  · have hu' : Untouched { s with ctr := wrapAdd s.ctr 1, evs := s.evs ++ [.faa (.ctr 0) .acqrel s.ctr 1] } s.ctr (s.ctr + 1) := hu h
    have hg := fun ρ'' => vec_get_some len cap s.ctr f { s with ctr := wrapAdd s.ctr 1, evs := s.evs ++ [.faa (.ctr 0) .acqrel s.ctr 1] } ρ'' hc h hu'
    simp only [vecS] at hg
    simp [hg, h, m_map, MMap.m_map, pure, bind, PF.bind]
  · have hg := fun ρ'' => vec_get_none len s.ctr f { s with ctr := wrapAdd s.ctr 1, evs := s.evs ++ [.faa (.ctr 0) .acqrel s.ctr 1] } ρ'' h
    simp only [vecS] at hg
    simp [hg, h, m_map, MMap.m_map, pure]

/-- `take_slice(b, n)`, `b` at most the length: the chunk iterator over `[b, min(b + n, len))`; no fault -/
theorem vec_take_slice (len cap b n f : Nat) (s : OSt) (ρ' : Type) (hc : VecCell s len cap) (hb : b ≤ len) (hw : len < W) :
    (Vec.take_slice f (vecS len) b n : PF ρ' _) s = .ok (.norm (taken cap b (min (satAdd b n) len - b) 0)) s := by
  have h1 : b ≤ min (satAdd b n) len := by unfold satAdd MAXW; unfold W at hw; split <;> omega
  have h2 : b ≤ cap := by have := hc.2; omega
  simp [Vec.take_slice, vecS, m_fn, bind, PF.bind, pure, m_saturating_add, m_len, MLen.m_len, hc.1, m_min, op_sub, h1,
    m_as_mut_ptr, MAsMutPtr.m_as_mut_ptr, m_add, h2, Taken.new, taken]

/-- what a chunk request of size `n` gets when the counter reads `c`: nothing, or a chunk iterator over the model's
`pullRange` -/
def chunkOf (cap len c n : Nat) : Option (NextChunk Taken) :=
  let r := KS.pullRange len c n
  if r.1 = r.2 then none else some ⟨r.1, taken cap r.1 (r.2 - r.1) 0⟩


theorem vec_progress (len n f : Nat) (s : OSt) (ρ' : Type) :
    (Vec.progress_and_get_begin_idx f (vecS len) n : PF ρ' _) s =
      .ok (.norm (if s.ctr < len then some s.ctr else none))
        { s with ctr := wrapAdd s.ctr n, evs := s.evs ++ [.faa (.ctr 0) .acqrel s.ctr n] } := by
  simp only [Vec.progress_and_get_begin_idx, Vec.counter, Vec.initial_len, vecS, m_fn, bind, PF.bind, pure, counter_faa, m_cmp]
  by_cases h1 : s.ctr < len
  · simp [h1]
  · by_cases h2 : s.ctr = len <;> simp [h1, h2]

/-- **`fetch_n`** = the model's atom `many n`: one `fetch_add(n)`; the chunk iterator covers exactly `pullRange len c n`;
nothing is moved or destroyed yet -/
theorem vec_fetch_n (len cap n f : Nat) (s : OSt) (ρ' : Type) (hc : VecCell s len cap) (hw : len < W) :
    (Vec.fetch_n f (vecS len) n : PF ρ' _) s =
      .ok (.norm (chunkOf cap len s.ctr n)) { s with ctr := wrapAdd s.ctr n, evs := s.evs ++ [.faa (.ctr 0) .acqrel s.ctr n] } := by
  have hp := fun ρ'' => vec_progress len n f s ρ''
  simp only [vecS] at hp
  simp only [Vec.fetch_n, Vec.initial_len, vecS, m_fn, bind, PF.bind, pure, hp, m_unwrap_or, m_saturating_add, m_min, m_max, m_cmp,
    chunkOf, KS.pullRange]
  by_cases h1 : s.ctr < len
  · simp only [h1, ↓reduceIte, Option.getD_some]
    by_cases hs : s.ctr = max (min (satAdd s.ctr n) len) s.ctr
    · have : ¬ s.ctr < max (min (satAdd s.ctr n) len) s.ctr := by omega
      simp [← hs]
    · have hlt : s.ctr < max (min (satAdd s.ctr n) len) s.ctr := by omega
      have hm : max (min (satAdd s.ctr n) len) s.ctr = min (satAdd s.ctr n) len := by omega
      have hts := fun ρ'' => vec_take_slice len cap s.ctr n f
        { s with ctr := wrapAdd s.ctr n, evs := s.evs ++ [.faa (.ctr 0) .acqrel s.ctr n] } ρ'' hc (by omega) hw
      simp only [vecS] at hts
      have hlt' : s.ctr < min (satAdd s.ctr n) len := by omega
      have hs' : ¬ s.ctr = min (satAdd s.ctr n) len := by omega
      simp [hs', hlt', hm, hts, PF.bind]
  · have hm : max (min (satAdd len n) len) len = len := by omega
    simp [h1, hm]

/-- the state after `skip_to_end` read the counter value `c`: the positions from `min c len` on are destroyed -/
def afterSkip (s : OSt) (len : Nat) : OSt :=
  { s with ctr := len, evs := s.evs ++ [.swp (.ctr 0) .acqrel s.ctr len], dr := s.dr ++ rangeList (min s.ctr len) len,
           dpanic := dpAfter s.dpanic (len - min s.ctr len) }

/-- **`early_exit`** (`skip_to_end`) = the model's atom `skip` on a consuming kind: one `swap(len)`, then exactly the
positions that no pull has reserved are destroyed in place (all of them, also when a destructor panics) -/
theorem vec_early_exit (len cap f : Nat) (s : OSt) (ρ' : Type) (hc : VecCell s len cap) (hu : Untouched s (min s.ctr len) len) :
    (Vec.early_exit f (vecS len) : PF ρ' _) s =
      if dpHit s.dpanic (len - min s.ctr len) then .unwind (afterSkip s len) else .ok (.norm ()) (afterSkip s len) := by
  have h1 : min s.ctr len ≤ cap := by have := hc.2; omega
  have h2 : min s.ctr len ≤ len := by omega
  have h3 : min s.ctr len + (len - min s.ctr len) = len := by omega
  have h4 : len ≤ cap := hc.2
  have hd := destroy_range true { s with ctr := len, evs := s.evs ++ [.swp (.ctr 0) .acqrel s.ctr len] } (min s.ctr len) len hu
  dsimp only at hd
  rw [hc.1] at hd
  simp only [Vec.early_exit, Vec.counter, vecS, m_fn, bind, PF.bind, pure, counter_swap, m_min, m_as_mut_ptr, MAsMutPtr.m_as_mut_ptr,
    hc.1, m_add, op_sub, ptr_slice_from_raw_parts_mut, ptr_drop_in_place, h1, h2, h3, h4, hd, afterSkip, ↓reduceIte, Nat.zero_add]
  cases hh : dpHit s.dpanic (len - min s.ctr len) <;> simp [cleanup]

/-- `split_off_right(k)`, `k ≤ len`: the elements `[k, len)` leave the storage for a new vector (a heap block iff it is
non-empty); the shortened vector is put back into the cell -/
theorem vec_split_off_right (len cap k f : Nat) (s : OSt) (ρ' : Type) (hc : VecCell s len cap) (hk : k ≤ len) (hu : Untouched s k len) :
    (Vec.split_off_right f (vecS len) k : PF ρ' _) s =
      .ok (.norm ⟨k, len - k, len - k, 1⟩)
        { s with cell := some ⟨0, k, cap, 0⟩, vac := s.vac ++ rangeList k len, heap := s.heap ++ (if k < len then [.alloc 1] else []) } := by
  have hall : ∀ p ∈ rangeList (0 + k) (0 + len), p ∉ s.vac ∧ p ∉ s.dr := by
    intro p hp
    have := (mem_rangeList _ _ p).mp hp
    exact hu p (by omega) (by omega)
  simp only [Nat.zero_add] at hall
  have hif := eq_true hall
  simp [Vec.split_off_right, vecS, m_fn, bind, PF.bind, pure, op_le, hk, m_debug_assert, ManuallyDrop_take, hc.1, m_owned_push,
    m_split_off, hif, m_owned_set, setFirst, ManuallyDrop_new, m_owned_forget, m_write_cell, List.eraseP]

/-- the state after `Drop for ConIterOfVec` found the counter at `c`: the elements `[min c len, len)` are destroyed and the
vector's buffer is released -/
def afterVecDrop (s : OSt) (len cap : Nat) : OSt :=
  { s with evs := s.evs ++ [.ld (.ctr 0) .acquire s.ctr], cell := none, dr := s.dr ++ rangeList (min s.ctr len) len,
           dpanic := dpAfter s.dpanic (len - min s.ctr len), heap := s.heap ++ (if 0 < cap then [.free 0] else []) }

/-- **`Drop for ConIterOfVec`**: one load of the counter; exactly the elements no pull has reserved are destroyed; the
buffer of the consumed vector is released **on the normal and on the unwinding path** (a panicking element destructor) -/
theorem vec_drop (L len cap f : Nat) (s : OSt) (ρ' : Type) (hc : VecCell s len cap) (hu : Untouched s (min s.ctr len) len) :
    (Vec.drop f (vecS L) : PF ρ' _) s =
      if dpHit s.dpanic (len - min s.ctr len) then .unwind (afterVecDrop s len cap)
      else .ok (.norm ((), vecS L)) (afterVecDrop s len cap) := by
  have h0 : 0 ≤ cap := by omega
  have h1 : min s.ctr len ≤ cap := by have := hc.2; omega
  have h2 : min s.ctr len ≤ len := by omega
  have h3 : min s.ctr len + (len - min s.ctr len) = len := by omega
  have h4 : len ≤ cap := hc.2
  have hd := destroy_range true { s with evs := s.evs ++ [.ld (.ctr 0) .acquire s.ctr], cell := none, owned := (0, ⟨0, 0, cap, 0⟩) :: s.owned } (min s.ctr len) len hu
  dsimp only at hd
  simp only [Vec.drop, Vec.counter, vecS, m_fn, bind, PF.bind, pure, counter_current, m_get_mut, ManuallyDrop_take, hc.1,
    m_owned_push, m_len, MLen.m_len, m_min, m_set_len, h0, m_owned_set, setFirst, m_as_mut_ptr, MAsMutPtr.m_as_mut_ptr, m_add, op_sub,
    ptr_slice_from_raw_parts_mut, ptr_drop_in_place, h1, h2, h3, h4, hd, afterVecDrop, ↓reduceIte, Nat.zero_add]
  have hl : ¬ (s.owned.length + 1 ≤ s.owned.length) := by omega
  have hr : rangeList 0 0 = [] := rfl
  cases hh : dpHit s.dpanic (len - min s.ctr len) <;>
    simp [cleanup, m_owned_drop, dropVec, destroy, hr, hl, List.eraseP]


/-- the state after `into_seq_iter` found the counter at `c` (`m = min c len`): two loads (`into_seq_iter`, then `Drop` of
`self`), the elements `[m, len)` are in the returned vector (a new block iff non-empty), the old buffer is released,
nothing is destroyed -/
def afterVecIntoSeq (s : OSt) (len cap : Nat) : OSt :=
  { s with evs := s.evs ++ [.ld (.ctr 0) .acquire s.ctr, .ld (.ctr 0) .acquire s.ctr], cell := none,
           vac := s.vac ++ rangeList (min s.ctr len) len,
           heap := s.heap ++ (if min s.ctr len < len then [.alloc 1] else []) ++ (if 0 < cap then [.free 0] else []) }

/-- the state between the split and the `Drop` of `self` -/
def midIntoSeq (s : OSt) (len cap : Nat) : OSt :=
  { s with evs := s.evs ++ [.ld (.ctr 0) .acquire s.ctr], cell := some ⟨0, min s.ctr len, cap, 0⟩, vac := s.vac ++ rangeList (min s.ctr len) len, heap := s.heap ++ (if min s.ctr len < len then [.alloc 1] else []) }

/-- **`into_seq_iter` of `ConIterOfVec`** (including the `Drop` of `self` that follows the split): the result owns exactly
the positions `[min c len, len)`; no element is destroyed; the consumed vector's buffer is released -/
theorem vec_into_seq_iter (len cap f : Nat) (s : OSt) (ρ' : Type) (hc : VecCell s len cap) (hu : Untouched s (min s.ctr len) len) :
    (Vec.into_seq_iter f (vecS len) : PF ρ' _) s =
      .ok (.norm ⟨min s.ctr len, len - min s.ctr len, len - min s.ctr len, 1⟩) (afterVecIntoSeq s len cap) := by
  have hm : min s.ctr len ≤ len := by omega
  have hso := fun ρ'' => vec_split_off_right len cap (min s.ctr len) f { s with evs := s.evs ++ [.ld (.ctr 0) .acquire s.ctr] } ρ'' hc hm hu
  simp only [vecS] at hso
  have hc2 : VecCell (midIntoSeq s len cap) (min s.ctr len) cap := ⟨rfl, by have := hc.2; omega⟩
  have hu2 : Untouched (midIntoSeq s len cap) (min s.ctr (min s.ctr len)) (min s.ctr len) := by
    intro p h1 h2; omega
  have hdr := fun ρ'' => vec_drop len (min s.ctr len) cap f _ ρ'' hc2 hu2
  simp only [vecS] at hdr
  have h0 : min s.ctr len - min s.ctr (min s.ctr len) = 0 := by omega
  have hmm : min s.ctr (min s.ctr len) = min s.ctr len := by omega
  simp only [Nat.sub_self, dpHit_zero, dpAfter_zero, afterVecDrop, hmm, midIntoSeq, rangeList_nil _ _ (Nat.le_refl _)] at hdr
  simp [Vec.into_seq_iter, Vec.counter, vecS, m_fn, bind, PF.bind, pure, counter_current, m_min, hso, m_owned_push, m_into_iter,
    m_owned_forget, List.eraseP, hdr, afterVecIntoSeq, rangeList_nil]

/-! ## `ConIterOfArray` -/

def arrS : ArrSelf := {}

/-- the iterator's cell holds the consumed array (stored inline: `ManuallyDrop<[T; N]>`, never released as a block) -/
def ArrCell (s : OSt) (N : Nat) : Prop := s.cell = some ⟨0, N, N, 2⟩

theorem arr_read_all (N : Nat) (ρ' : Type) (g : Nat → PF ρ' Nat)
    (hg : ∀ i s, i < N → i ∉ s.vac → i ∉ s.dr → g i s = .ok (.norm i) { s with vac := s.vac ++ [i] }) :
    ∀ (d k : Nat) (acc : List Nat) (s : OSt), N - k = d → k ≤ N → Untouched s k N →
    (mapAux g (rangeList k N) acc) s = .ok (.norm (acc ++ rangeList k N)) { s with vac := s.vac ++ rangeList k N }
  | 0, k, acc, s, hd, hk, _ => by
    have : rangeList k N = [] := rangeList_nil k N (by omega)
    simp [this, mapAux, pure]
  | d + 1, k, acc, s, hd, hk, hu => by
    have hlt : k < N := by omega
    have hk1 := hu k (by omega) hlt
    rw [rangeList_cons k N hlt]
    have hu' : Untouched { s with vac := s.vac ++ [k] } (k + 1) N := by
      intro p h1 h2
      have := hu p (by omega) h2
      simp only [List.mem_append, List.mem_singleton, not_or]
      exact ⟨⟨this.1, by omega⟩, this.2⟩
    have ih := arr_read_all N ρ' g hg d (k + 1) (acc ++ [k]) { s with vac := s.vac ++ [k] } (by omega) (by omega) hu'
    simp only [mapAux, bind, PF.bind, hg k s hlt hk1.1 hk1.2]
    rw [ih]
    simp [List.append_assoc]

/-- what `split_off_right(k)` of the array returns: a vector of the positions `[k, N)` -/
def arrRest (N k : Nat) : VecVal := if k < N then ⟨k, N - k, N - k, 1⟩ else ⟨0, 0, 0, 1⟩

/-- `split_off_right(k)`, `k ≤ N`: the elements `[k, N)` are moved out of the array one by one into a new vector -/
theorem arr_split_off_right (N k f : Nat) (s : OSt) (ρ' : Type) (hc : ArrCell s N) (hk : k ≤ N) (hu : Untouched s k N) :
    (Arr.split_off_right f N arrS k : PF ρ' _) s =
      .ok (.norm (arrRest N k)) { s with vac := s.vac ++ rangeList k N, heap := s.heap ++ (if k < N then [.alloc 1] else []) } := by
  have hc' : s.cell = some ⟨0, N, N, 2⟩ := hc
  simp only [Arr.split_off_right, arrS, m_fn, bind, PF.bind, pure, op_le, hk, decide_true, m_debug_assert, ↓reduceIte,
    m_as_mut_ptr, MAsMutPtr.m_as_mut_ptr, hc', m_range, m_map, MMap.m_map]
  rw [arr_read_all N _ _ ?_ (N - k) k [] s rfl hk hu]
  · by_cases h : k < N
    · have hl : (rangeList k N).length = N - k := rangeList_length k N
      have he : rangeList k N = rangeList k (k + (N - k)) := by congr 1; omega
      rw [rangeList_cons k N h] at hl he
      simp only [List.nil_append, m_collect, arrRest, h, ↓reduceIte]
      rw [rangeList_cons k N h]
      simp [hl, ← he, hc']
    · simp [rangeList_nil k N (by omega), h, m_collect, arrRest, hc']
  · intro i s' h1 h2 h3
    have : i ≤ N := by omega
    unfold PF.bind m_add m_read
    simp [h1, h2, h3, this]


/-- the state after `Drop for ConIterOfArray` found the counter at `c ≤ N`: the elements `[c, N)` were moved into a vector,
which was dropped at once (a heap block allocated and released iff it is non-empty) -/
def afterArrDrop (s : OSt) (N : Nat) : OSt :=
  if s.ctr ≤ N then
    { s with evs := s.evs ++ [.ld (.ctr 0) .acquire s.ctr], vac := s.vac ++ rangeList s.ctr N, dr := s.dr ++ rangeList s.ctr N,
             dpanic := dpAfter s.dpanic (N - s.ctr), heap := s.heap ++ (if s.ctr < N then [.alloc 1, .free 1] else []) }
  else { s with evs := s.evs ++ [.ld (.ctr 0) .acquire s.ctr] }

/-- **`Drop for ConIterOfArray`**: exactly the elements no pull has reserved are destroyed (via a temporary vector whose
block is released also when a destructor panics); an overshot counter (`c > N`) destroys nothing -/
theorem arr_drop (N f : Nat) (s : OSt) (ρ' : Type) (hc : ArrCell s N) (hu : Untouched s (min s.ctr N) N) :
    (Arr.drop f N arrS : PF ρ' _) s =
      if s.ctr ≤ N ∧ dpHit s.dpanic (N - s.ctr) = true then .unwind (afterArrDrop s N) else .ok (.norm ((), arrS)) (afterArrDrop s N) := by
  by_cases h : s.ctr ≤ N
  · have hmin : min s.ctr N = s.ctr := by omega
    rw [hmin] at hu
    have hso := fun ρ'' => arr_split_off_right N s.ctr f { s with evs := s.evs ++ [.ld (.ctr 0) .acquire s.ctr] } ρ'' hc h hu
    simp only [arrS] at hso
    have hnd : ∀ x ∈ rangeList s.ctr N, x ∉ s.dr ∧ (false = true → x ∉ s.vac ++ rangeList s.ctr N) := by
      intro x hx
      have := (mem_rangeList _ _ x).mp hx
      exact ⟨(hu x this.1 this.2).2, fun hf => by cases hf⟩
    have hl : ¬ (s.owned.length + 1 ≤ s.owned.length) := by omega
    by_cases h2 : s.ctr < N
    · have hb : s.ctr + (N - s.ctr) = N := by omega
      have hd := destroy_ok false (rangeList s.ctr N) { s with evs := s.evs ++ [.ld (.ctr 0) .acquire s.ctr], vac := s.vac ++ rangeList s.ctr N, heap := s.heap ++ [.alloc 1], owned := s.owned } false (rangeList_nodup _ _) hnd
      dsimp only at hd
      rw [rangeList_length] at hd
      simp only [arrRest, h2, ↓reduceIte] at hso
      have h0 : 0 < N - s.ctr := by omega
      simp only [Bool.false_or] at hd
      cases hh : dpHit s.dpanic (N - s.ctr) <;>
        simp [Arr.drop, Arr.counter, arrS, m_fn, bind, PF.bind, pure, counter_current, op_le, h, hso,
          m_owned_push, m_owned_drop, List.eraseP, dropVec, afterArrDrop, hb, hd, h2, h0, hh, cleanup, hl, List.append_assoc]
    · have hr : rangeList 0 (0 + 0) = [] := rfl
      have hn : N - s.ctr = 0 := by omega
      simp only [arrRest, h2, ↓reduceIte] at hso
      simp [Arr.drop, Arr.counter, arrS, m_fn, bind, PF.bind, pure, counter_current, op_le, h, hso,
        m_owned_push, m_owned_drop, List.eraseP, dropVec, afterArrDrop, h2, hr, destroy, rangeList_nil s.ctr N (by omega), hn, dpAfter_zero, dpHit_zero]
  · simp [Arr.drop, Arr.counter, arrS, m_fn, bind, PF.bind, pure, counter_current, op_le, h, afterArrDrop]

/-- **`into_seq_iter` of `ConIterOfArray`**: the result owns exactly the positions `[min c N, N)`; `self` is forgotten
(`mem::forget`): its `Drop` does not run, nothing is destroyed -/
theorem arr_into_seq_iter (N f : Nat) (s : OSt) (ρ' : Type) (hc : ArrCell s N) (hu : Untouched s (min s.ctr N) N) :
    (Arr.into_seq_iter f N arrS : PF ρ' _) s =
      .ok (.norm (arrRest N (min s.ctr N)))
        { s with evs := s.evs ++ [.ld (.ctr 0) .acquire s.ctr], vac := s.vac ++ rangeList (min s.ctr N) N,
                 heap := s.heap ++ (if min s.ctr N < N then [.alloc 1] else []) } := by
  have hm : min s.ctr N ≤ N := by omega
  have hso := fun ρ'' => arr_split_off_right N (min s.ctr N) f { s with evs := s.evs ++ [.ld (.ctr 0) .acquire s.ctr] } ρ'' hc hm hu
  simp only [arrS] at hso
  simp [Arr.into_seq_iter, Arr.counter, arrS, m_fn, bind, PF.bind, pure, counter_current, m_min, hso, m_owned_push, mem_forget,
    m_into_iter, m_owned_forget, List.eraseP]

/-- the caller of `into_seq_iter` takes `k` elements of the returned iterator and drops it: the first `min k len` positions
are delivered, the others destroyed, the block released (std's `vec::IntoIter`) -/
theorem seq_consume (v : VecVal) (k : Option Nat) (s : OSt) (ρ' : Type)
    (hu : ∀ p, v.base ≤ p → p < v.base + v.len → p ∉ s.dr) :
    (seqConsume v k : PF ρ' _) s =
      if dpHit s.dpanic (v.len - seqCount v k) then
        .unwind { s with dr := s.dr ++ rangeList (v.base + seqCount v k) (v.base + v.len), dpanic := dpAfter s.dpanic (v.len - seqCount v k),
                         heap := s.heap ++ (if 0 < v.cap then [.free v.role] else []) }
      else .ok (.norm (rangeList v.base (v.base + seqCount v k)))
        { s with dr := s.dr ++ rangeList (v.base + seqCount v k) (v.base + v.len), dpanic := dpAfter s.dpanic (v.len - seqCount v k),
                 heap := s.heap ++ (if 0 < v.cap then [.free v.role] else []) } := by
  generalize hj' : seqCount v k = j
  have hj : j ≤ v.len := by
    rw [← hj']; unfold seqCount; cases k <;> simp <;> omega
  have hb : v.base + j + (v.len - j) = v.base + v.len := by omega
  have hnd : ∀ x ∈ rangeList (v.base + j) (v.base + v.len), x ∉ s.dr ∧ (false = true → x ∉ s.vac) := by
    intro x hx
    have := (mem_rangeList _ _ x).mp hx
    exact ⟨hu x (by omega) this.2, fun hf => by cases hf⟩
  have hd := destroy_ok false _ s false (rangeList_nodup (v.base + j) (v.base + v.len)) hnd
  have hlen : (rangeList (v.base + j) (v.base + v.len)).length = v.len - j := by rw [rangeList_length]; omega
  rw [hlen] at hd
  unfold seqConsume
  simp only [dropVec, hj', hb, hd, Bool.false_or]
  cases hh : dpHit s.dpanic (v.len - j) <;> simp

/-! ### the pulling side of `ConIterOfArray` (same statements as for the vector, with `len = cap = N`) -/

/-- `get(i)` for an index below the length whose element is still in the storage: it is moved out (through the
`MaybeUninit` dance of `take_one`) and returned -/
theorem arr_get_some (N i f : Nat) (s : OSt) (ρ' : Type) (hc : ArrCell s N) (hi : i < N) (hu : Untouched s i (i + 1)) :
    (Arr.get f N arrS i : PF ρ' _) s = .ok (.norm (some i)) { s with vac := s.vac ++ [i], scratch := none } := by
  have hc' : s.cell = some ⟨0, N, N, 2⟩ := hc
  have h1 : ¬ i = N := by omega
  have h2 : i ≤ N := by omega
  have h3 : i < N := by omega
  have h4 := hu i (by omega) (by omega)
  simp [Arr.get, Arr.take_one, arrS, m_fn, bind, PF.bind, pure, m_cmp, hi, m_as_mut_ptr, MAsMutPtr.m_as_mut_ptr, hc', m_add, h2,
    MaybeUninit_uninit, m_read, h3, h4.1, h4.2, m_write, m_assume_init]

theorem arr_get_none (N i f : Nat) (s : OSt) (ρ' : Type) (hi : ¬ i < N) :
    (Arr.get f N arrS i : PF ρ' _) s = .ok (.norm none) s := by
  by_cases h : i = N <;> simp [Arr.get, arrS, m_fn, bind, PF.bind, pure, m_cmp, hi, h]

/-- **`fetch_one`** = the model's atom `one`: one `fetch_add(1)`, and the element at the counter value read — if below the
length — leaves the storage for the caller -/
theorem arr_fetch_one (N f : Nat) (s : OSt) (ρ' : Type) (hc : ArrCell s N) (hu : s.ctr < N → Untouched s s.ctr (s.ctr + 1)) :
    (Arr.fetch_one f N arrS : PF ρ' _) s =
      if s.ctr < N then
        .ok (.norm (some ⟨s.ctr, s.ctr⟩)) { s with ctr := wrapAdd s.ctr 1, evs := s.evs ++ [.faa (.ctr 0) .acqrel s.ctr 1], vac := s.vac ++ [s.ctr], scratch := none }
      else .ok (.norm none) { s with ctr := wrapAdd s.ctr 1, evs := s.evs ++ [.faa (.ctr 0) .acqrel s.ctr 1] } := by
  unfold Arr.fetch_one
  simp only [Arr.counter, arrS, m_fn, bind, PF.bind, pure, counter_inc]
  by_cases h : s.ctr < N
  · have hu' : Untouched { s with ctr := wrapAdd s.ctr 1, evs := s.evs ++ [.faa (.ctr 0) .acqrel s.ctr 1] } s.ctr (s.ctr + 1) := hu h
    have hg := fun ρ'' => arr_get_some N s.ctr f { s with ctr := wrapAdd s.ctr 1, evs := s.evs ++ [.faa (.ctr 0) .acqrel s.ctr 1] } ρ'' hc h hu'
    simp only [arrS] at hg
    simp [hg, h, m_map, MMap.m_map, pure, bind, PF.bind]
  · have hg := fun ρ'' => arr_get_none N s.ctr f { s with ctr := wrapAdd s.ctr 1, evs := s.evs ++ [.faa (.ctr 0) .acqrel s.ctr 1] } ρ'' h
    simp only [arrS] at hg
    simp [hg, h, m_map, MMap.m_map, pure]

/-- `take_slice(b, n)`, `b` at most the length: the chunk iterator over `[b, min(b + n, N))`; no fault -/
theorem arr_take_slice (N b n f : Nat) (s : OSt) (ρ' : Type) (hc : ArrCell s N) (hb : b ≤ N) (hw : N < W) :
    (Arr.take_slice f N arrS b n : PF ρ' _) s = .ok (.norm (taken N b (min (satAdd b n) N - b) 0)) s := by
  have hc' : s.cell = some ⟨0, N, N, 2⟩ := hc
  have h1 : b ≤ min (satAdd b n) N := by unfold satAdd MAXW; unfold W at hw; split <;> omega
  have h2 : b ≤ N := by omega
  simp [Arr.take_slice, arrS, m_fn, bind, PF.bind, pure, m_saturating_add, m_len, MLen.m_len, hc', m_min, op_sub, h1,
    m_as_mut_ptr, MAsMutPtr.m_as_mut_ptr, m_add, h2, Taken.new, taken]


theorem arr_progress (N n f : Nat) (s : OSt) (ρ' : Type) :
    (Arr.progress_and_get_begin_idx f N arrS n : PF ρ' _) s =
      .ok (.norm (if s.ctr < N then some s.ctr else none))
        { s with ctr := wrapAdd s.ctr n, evs := s.evs ++ [.faa (.ctr 0) .acqrel s.ctr n] } := by
  simp only [Arr.progress_and_get_begin_idx, Arr.counter, Arr.initial_len, arrS, m_fn, bind, PF.bind, pure, counter_faa, m_cmp]
  by_cases h1 : s.ctr < N
  · simp [h1]
  · by_cases h2 : s.ctr = N <;> simp [h1, h2]

/-- **`fetch_n`** = the model's atom `many n`: one `fetch_add(n)`; the chunk iterator covers exactly `pullRange N c n`;
nothing is moved or destroyed yet -/
theorem arr_fetch_n (N n f : Nat) (s : OSt) (ρ' : Type) (hc : ArrCell s N) (hw : N < W) :
    (Arr.fetch_n f N arrS n : PF ρ' _) s =
      .ok (.norm (chunkOf N N s.ctr n)) { s with ctr := wrapAdd s.ctr n, evs := s.evs ++ [.faa (.ctr 0) .acqrel s.ctr n] } := by
  have hp := fun ρ'' => arr_progress N n f s ρ''
  simp only [arrS] at hp
  simp only [Arr.fetch_n, Arr.initial_len, arrS, m_fn, bind, PF.bind, pure, hp, m_unwrap_or, m_saturating_add, m_min, m_max, m_cmp,
    chunkOf, KS.pullRange]
  by_cases h1 : s.ctr < N
  · simp only [h1, ↓reduceIte, Option.getD_some]
    by_cases hs : s.ctr = max (min (satAdd s.ctr n) N) s.ctr
    · have : ¬ s.ctr < max (min (satAdd s.ctr n) N) s.ctr := by omega
      simp [← hs]
    · have hlt : s.ctr < max (min (satAdd s.ctr n) N) s.ctr := by omega
      have hm : max (min (satAdd s.ctr n) N) s.ctr = min (satAdd s.ctr n) N := by omega
      have hts := fun ρ'' => arr_take_slice N s.ctr n f
        { s with ctr := wrapAdd s.ctr n, evs := s.evs ++ [.faa (.ctr 0) .acqrel s.ctr n] } ρ'' hc (by omega) hw
      simp only [arrS] at hts
      have hlt' : s.ctr < min (satAdd s.ctr n) N := by omega
      have hs' : ¬ s.ctr = min (satAdd s.ctr n) N := by omega
      simp [hs', hlt', hm, hts, PF.bind]
  · have hm : max (min (satAdd N n) N) N = N := by omega
    simp [h1, hm]

/-- **`early_exit`** (`skip_to_end`) = the model's atom `skip` on a consuming kind: one `swap(N)`, then exactly the
positions that no pull has reserved are destroyed in place (all of them, also when a destructor panics) -/
theorem arr_early_exit (N f : Nat) (s : OSt) (ρ' : Type) (hc : ArrCell s N) (hu : Untouched s (min s.ctr N) N) :
    (Arr.early_exit f N arrS : PF ρ' _) s =
      if dpHit s.dpanic (N - min s.ctr N) then .unwind (afterSkip s N) else .ok (.norm ()) (afterSkip s N) := by
  have hc' : s.cell = some ⟨0, N, N, 2⟩ := hc
  have h1 : min s.ctr N ≤ N := by omega
  have h2 : min s.ctr N ≤ N := by omega
  have h3 : min s.ctr N + (N - min s.ctr N) = N := by omega
  have h4 : N ≤ N := Nat.le_refl N
  have hd := destroy_range true { s with ctr := N, evs := s.evs ++ [.swp (.ctr 0) .acqrel s.ctr N] } (min s.ctr N) N hu
  dsimp only at hd
  rw [hc'] at hd
  simp only [Arr.early_exit, Arr.counter, arrS, m_fn, bind, PF.bind, pure, counter_swap, m_min, m_as_mut_ptr, MAsMutPtr.m_as_mut_ptr,
    hc', m_add, op_sub, ptr_slice_from_raw_parts_mut, ptr_drop_in_place, h1, h2, h3, h4, hd, afterSkip, ↓reduceIte, Nat.zero_add]
  cases hh : dpHit s.dpanic (N - min s.ctr N) <;> simp [cleanup]


/-! ## facts about the source besides the function bodies -/

/-- `Taken` overrides only `next` and `size_hint`: every other `Iterator` method a caller may use on a chunk (`nth`,
`fold`, `count`, `for_each`, …) is std's default implementation, which is built on `next` — so the theorems about `next`
and `drop` cover them -/
theorem taken_overrides_only_next : Taken.iterator_overrides = ["next", "size_hint"] := by decide

/-- the storage of both consuming iterators is a `ManuallyDrop`: no destructor runs for the field when the iterator is
dropped; what happens to the elements is exactly what `Drop::drop` (translated above) does -/
theorem storage_is_manually_drop :
    Vec.storage_field_type = "UnsafeCell<ManuallyDrop<Vec<T>>>" ∧ Arr.storage_field_type = "UnsafeCell<ManuallyDrop<[T;N]>>" := by
  decide

end Orx.GenThms.Own
