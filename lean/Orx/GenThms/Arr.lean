import Orx.GenThms.Basic
import Orx.Generated.ArithArr
namespace Orx.GenThms
open Orx Orx.RS Orx.Gen Orx.KS

/-! ## array -/

def arr (len : Nat) : ArrSelf := ⟨⟨len⟩, {}⟩

theorem arr_initial_len (len : Nat) (s : St) : Arr.initial_len len (arr len) s = .ok len s := rfl

theorem arr_progress (len n c : Nat) (evs dr) :
    Arr.progress_and_get_begin_idx len (arr len) n (st c evs dr) =
      .ok (if c < len then some c else none) (st (wrapAdd c n) (evs ++ [faa c n]) dr) := by
  simp only [Arr.progress_and_get_begin_idx, Arr.counter, Arr.initial_len, Counter.fetch_and_add, arr, st, faa,
    bind, M.bind, pure, M.pure, m_fetch_add, St.get_ctr, St.set_ctr, m_cmp]
  by_cases h1 : c < len
  · simp [h1, M.pure]
  · by_cases h2 : c = len <;> simp [h1, h2, M.pure]

theorem arr_take_slice (len b n : Nat) (hb : b ≤ len) (hl : len < W) (s : St) :
    Arr.take_slice len (arr len) b n s = .ok ⟨b, min (satAdd b n) len⟩ s := by
  have h1 : b ≤ min (satAdd b n) len := by unfold satAdd MAXW; unfold W at hl; split <;> omega
  have h2 : b + (min (satAdd b n) len - b) ≤ len := by omega
  have h3 : b + (min (satAdd b n) len - b) = min (satAdd b n) len := by omega
  have h4 : min (satAdd b n) len ≤ len := by omega
  simp [h4, Arr.take_slice, arr, bind, M.bind, pure, M.pure, m_saturating_add, m_len, MLen.m_len, m_min, op_sub,
    m_as_mut_ptr, MAsMutPtr.m_as_mut_ptr, m_add, Taken_new, h1, hb, h2, h3]

theorem arr_fetch_n (len n c : Nat) (evs dr) (hl : len < W) :
    Arr.fetch_n len (arr len) n (st c evs dr) =
      .ok (chunkOf (pullRange len c n)) (st (wrapAdd c n) (evs ++ [faa c n]) dr) := by
  simp only [Arr.fetch_n, arr_progress, arr_initial_len, bind, M.bind, pure, M.pure,
    m_unwrap_or, m_saturating_add, m_min, m_max, m_cmp, chunkOf, pullRange]
  by_cases h1 : c < len
  · have hb := endIdx_bounds c n len (by omega)
    simp only [h1, ↓reduceIte, Option.getD_some]
    by_cases hs : c = max (min (satAdd c n) len) c
    · have : ¬ c < max (min (satAdd c n) len) c := by omega
      simp [← hs, M.pure]
    · have hlt : c < max (min (satAdd c n) len) c := by omega
      have hm : max (min (satAdd c n) len) c = min (satAdd c n) len := by omega
      have hlt' : c < min (satAdd c n) len := by omega
      have hs' : ¬ c = min (satAdd c n) len := by omega
      simp [hm, hlt', hs', M.pure, M.bind, arr_take_slice len c n (by omega) hl]
  · have hm : max (min (satAdd len n) len) len = len := by omega
    simp [h1, hm, M.pure]

theorem arr_fetch_one (len c : Nat) (evs dr) :
    Arr.fetch_one len (arr len) (st c evs dr) =
      .ok (if c < len then some ⟨c, c⟩ else none) (st (wrapAdd c 1) (evs ++ [faa c 1]) dr) := by
  simp only [Arr.fetch_one, Arr.counter, Arr.get, Counter.fetch_and_increment, arr, st, faa,
    bind, M.bind, pure, M.pure, m_fetch_add, St.get_ctr, St.set_ctr, m_cmp, m_take_one, MTakeOne.m_take_one, m_map, MMap.m_map]
  by_cases h1 : c < len
  · simp [h1, M.pure, M.bind]
  · by_cases h2 : c = len <;> simp [h1, h2, M.pure, M.bind]

theorem arr_early_exit (len c : Nat) (evs dr) :
    Arr.early_exit len (arr len) (st c evs dr) =
      .ok () (st len (evs ++ [.swp (.ctr 0) .acqrel c len]) (dr ++ [(min c len, len)])) := by
  have h1 : min c len ≤ len := by omega
  have h2 : min c len + (len - min c len) = len := by omega
  simp [Arr.early_exit, Arr.counter, Counter.swap, arr, st, bind, M.bind, pure, M.pure, m_swap, St.get_ctr, St.set_ctr, m_min, op_sub,
    m_as_mut_ptr, MAsMutPtr.m_as_mut_ptr, m_add, ptr_slice_from_raw_parts_mut, ptr_drop_in_place, h1, h2]

theorem arr_try_get_len (len c : Nat) (evs dr) :
    Arr.try_get_len len (arr len) (st c evs dr) =
      .ok (some (lenOf len c)) (st c (evs ++ [.ld (.ctr 0) .acquire c]) dr) := by
  simp only [Arr.try_get_len, Arr.counter, Arr.initial_len, Counter.current, arr, st, lenOf,
    bind, M.bind, pure, M.pure, m_load, MLoad.m_load, St.get_ctr, m_cmp, op_sub]
  by_cases h1 : c < len
  · have : c ≤ len := by omega
    simp [h1, this, M.pure, M.bind]
  · by_cases h2 : c = len <;> simp [h1, h2, M.pure, M.bind]

theorem arr_buffered_next (len n c : Nat) (evs dr) (hl : len < W) :
    BufferedIterArr.next len ⟨⟨n⟩, arr len⟩ (st c evs dr) =
      .ok (bufChunk len c n) (st (wrapAdd c n) (evs ++ [faa c n]) dr) := by
  simp only [BufferedIterArr.next, BufArr.chunk_size, arr_progress, bind, M.bind, pure, M.pure, m_and_then, bufChunk, pullRange]
  by_cases h1 : c < len
  · have hb := endIdx_bounds c n len (by omega)
    have hm : max (min (satAdd c n) len) c = min (satAdd c n) len := by
      have : c ≤ min (satAdd c n) len := by unfold satAdd MAXW; unfold W at hl; split <;> omega
      omega
    simp [h1, BufArr.pull, bind, M.bind, pure, M.pure, m_map, MMap.m_map, arr_take_slice len c n (by omega) hl, hm]
  · simp [h1, M.pure]

theorem arr_next_chunk (len n : Nat) : Arr.next_chunk len (arr len) n = Arr.fetch_n len (arr len) n := rfl
theorem arr_next_id_and_value (len : Nat) : Arr.next_id_and_value len (arr len) = Arr.fetch_one len (arr len) := rfl
theorem arr_skip_to_end (len : Nat) : Arr.skip_to_end len (arr len) = Arr.early_exit len (arr len) := rfl

end Orx.GenThms
