import Orx.RS.Prim
import Orx.KS
/-! # The translated Rust functions compute what the model says (for every machine-word input)

`Generated/Arith.lean` is produced from `/repo/src` by `tools/rs2lean.py` on every run. This file states, for each
translated function of the four known-size kinds and their buffered pullers, that for **all** inputs

* it does not fault: no `usize` overflow (so debug and release builds agree), no slice index out of range, no
  violated precondition of `ptr::add` / `Taken::new` / `slice_from_raw_parts_mut`, no failed assertion;
* it performs exactly one atomic access on the position counter — the one the model's `Atom` performs, with the
  ordering the trace shows — and leaves the counter at `Atom.next`;
* it returns the value the model computes (`KS.pullRange`, `KS.lenOf`, the clamped cursor).

A change of the arithmetic in the source changes the generated definition and breaks the proof here. -/
namespace Orx.GenThms
open Orx Orx.RS Orx.KS

/-- the chunk a pull returns for the model's position interval `[b, e)`: `None` iff empty -/
def chunkOf (r : Nat × Nat) : Option (NextChunk Span) :=
  if r.1 = r.2 then none else some ⟨r.1, ⟨r.1, r.2⟩⟩

/-- the same with the values of a range starting at `start` -/
def chunkOfR (start : Nat) (r : Nat × Nat) : Option (NextChunk Span) :=
  if r.1 = r.2 then none else some ⟨r.1, ⟨start + r.1, start + r.2⟩⟩

def st (c : Nat) (evs : List Ev) (dr : List (Nat × Nat)) : St := { ctr := c, evs := evs, drops := dr }

def faa (c n : Nat) : Ev := .faa (.ctr 0) .acqrel c n

theorem endIdx_bounds (b n len : Nat) (h : b ≤ len) :
    b ≤ max (min (satAdd b n) len) b ∧ max (min (satAdd b n) len) b ≤ len := by omega

theorem endIdx_gt (b n len : Nat) (h : b < len) (hn : 0 < n) (hl : len < W) : b < max (min (satAdd b n) len) b := by
  unfold satAdd MAXW; unfold W at hl; split <;> omega


/-! ## buffered chunk iterators (`BufferedIter::next` = `progress_and_get_begin_idx(chunk_size)` then `pull`) -/

/-- what `BufferedIter::next` returns when the counter read `c`: the model's `bufnext` -/
def bufChunk (len c n : Nat) : Option (NextChunk Span) :=
  if c < len then some ⟨c, ⟨c, (pullRange len c n).2⟩⟩ else none

def bufChunkR (start len c n : Nat) : Option (NextChunk Span) :=
  if c < len then some ⟨c, ⟨start + c, start + (pullRange len c n).2⟩⟩ else none

/-- a buffered chunk is never empty: chunk size `≥ 1` (asserted by `BufferedIter::new`) and a counter below the length -/
theorem buffered_chunk_nonempty (len c n : Nat) (h : c < len) (hn : 0 < n) (hl : len < W) :
    c < (pullRange len c n).2 := by
  simp only [pullRange, h, ↓reduceIte]
  exact endIdx_gt c n len h hn hl


end Orx.GenThms
