import Orx.GenThms.Basic
import Orx.Generated.ArithSlice
namespace Orx.GenThms
open Orx Orx.RS Orx.Gen Orx.KS

/-! ## slice -/

def slice (len : Nat) : SliceSelf := ⟨⟨len⟩, {}⟩

theorem slice_initial_len (len : Nat) (s : St) : Slice.initial_len (slice len) s = .ok len s := rfl

theorem slice_progress (len n c : Nat) (evs dr) :
    Slice.progress_and_get_begin_idx (slice len) n (st c evs dr) =
      .ok (if c < len then some c else none) (st (wrapAdd c n) (evs ++ [faa c n]) dr) := by
  simp only [Slice.progress_and_get_begin_idx, Slice.counter, Slice.initial_len, Counter.fetch_and_add, slice, st, faa,
    bind, M.bind, pure, M.pure, m_fetch_add, St.get_ctr, St.set_ctr, m_len, MLen.m_len, m_cmp]
  by_cases h1 : c < len
  · simp [h1, M.pure]
  · by_cases h2 : c = len <;> simp [h1, h2, M.pure]

theorem slice_fetch_n (len n c : Nat) (evs dr) :
    Slice.fetch_n (slice len) n (st c evs dr) =
      .ok (chunkOf (pullRange len c n)) (st (wrapAdd c n) (evs ++ [faa c n]) dr) := by
  simp only [Slice.fetch_n, slice_progress, slice_initial_len, bind, M.bind, pure, M.pure,
    m_unwrap_or, m_saturating_add, m_min, m_max, m_cmp, m_index_range, m_iter, MIter.m_iter, chunkOf, pullRange]
  simp only [slice]
  by_cases h1 : c < len
  · have hb := endIdx_bounds c n len (by omega)
    simp only [h1, ↓reduceIte, Option.getD_some]
    by_cases hs : c = max (min (satAdd c n) len) c
    · have : ¬ c < max (min (satAdd c n) len) c := by omega
      simp [← hs, M.pure]
    · have : c < max (min (satAdd c n) len) c := by omega
      simp [this, hs, hb, M.pure, M.bind]
  · have hm : max (min (satAdd len n) len) len = len := by omega
    simp [h1, hm, M.pure]

theorem slice_fetch_one (len c : Nat) (evs dr) :
    Slice.fetch_one (slice len) (st c evs dr) =
      .ok (if c < len then some ⟨c, c⟩ else none) (st (wrapAdd c 1) (evs ++ [faa c 1]) dr) := by
  simp only [Slice.fetch_one, Slice.counter, Slice.get, Counter.fetch_and_increment, slice, st, faa,
    bind, M.bind, pure, M.pure, m_fetch_add, St.get_ctr, St.set_ctr, m_get, m_map, MMap.m_map]
  by_cases h1 : c < len <;> simp [h1, M.pure, M.bind]

theorem slice_early_exit (len c : Nat) (evs dr) :
    Slice.early_exit (slice len) (st c evs dr) = .ok () (st len (evs ++ [.st (.ctr 0) .seqcst len]) dr) := by
  simp [Slice.early_exit, Slice.counter, Counter.store, slice, st, bind, M.bind, pure, M.pure, m_store, MStore.m_store, St.set_ctr, m_len, MLen.m_len]

theorem slice_try_get_len (len c : Nat) (evs dr) :
    Slice.try_get_len (slice len) (st c evs dr) =
      .ok (some (lenOf len c)) (st c (evs ++ [.ld (.ctr 0) .acquire c]) dr) := by
  simp only [Slice.try_get_len, Slice.counter, Slice.initial_len, Counter.current, slice, st, lenOf,
    bind, M.bind, pure, M.pure, m_load, MLoad.m_load, St.get_ctr, m_len, MLen.m_len, m_cmp, op_sub]
  by_cases h1 : c < len
  · have : c ≤ len := by omega
    simp [h1, this, M.pure, M.bind]
  · by_cases h2 : c = len <;> simp [h1, h2, M.pure, M.bind]

theorem slice_into_seq_iter (len c : Nat) (evs dr) :
    Slice.into_seq_iter (slice len) (st c evs dr) =
      .ok ⟨min c len, len⟩ (st c (evs ++ [.ld (.ctr 0) .acquire c]) dr) := by
  simp [Slice.into_seq_iter, Slice.counter, Counter.current, slice, st, bind, M.bind, pure, M.pure, m_load, MLoad.m_load, St.get_ctr,
    m_iter, MIter.m_iter, m_skip]

theorem slice_buffered_next (len n c : Nat) (evs dr) :
    BufferedIterSlice.next ⟨⟨n⟩, slice len⟩ (st c evs dr) =
      .ok (bufChunk len c n) (st (wrapAdd c n) (evs ++ [faa c n]) dr) := by
  simp only [BufferedIterSlice.next, BufSlice.chunk_size, slice_progress, bind, M.bind, pure, M.pure, m_and_then, bufChunk, pullRange]
  by_cases h1 : c < len
  · have hb := endIdx_bounds c n len (by omega)
    simp [h1, BufSlice.pull, Slice.as_slice, slice, bind, M.bind, pure, M.pure, m_len, MLen.m_len, m_cmp,
      m_saturating_add, m_min, m_max, m_index_range, m_iter, MIter.m_iter, m_map, MMap.m_map, hb]
  · simp [h1, M.pure]

theorem slice_next_chunk (len n : Nat) : Slice.next_chunk (slice len) n = Slice.fetch_n (slice len) n := rfl
theorem slice_next_id_and_value (len : Nat) : Slice.next_id_and_value (slice len) = Slice.fetch_one (slice len) := rfl
theorem slice_skip_to_end (len : Nat) : Slice.skip_to_end (slice len) = Slice.early_exit (slice len) := rfl

end Orx.GenThms
