import Orx.GenThms.Basic
import Orx.Generated.ArithRange
namespace Orx.GenThms
open Orx Orx.RS Orx.Gen Orx.KS

/-! ## range -/

def range (a b : Nat) : RangeSelf := ⟨⟨a, b⟩, {}⟩

theorem range_initial_len (a b : Nat) (s : St) : Range.initial_len (range a b) s = .ok (b - a) s := rfl

theorem range_progress (a b n c : Nat) (evs dr) :
    Range.progress_and_get_begin_idx (range a b) n (st c evs dr) =
      .ok (if c < b - a then some c else none) (st (wrapAdd c n) (evs ++ [faa c n]) dr) := by
  simp only [Range.progress_and_get_begin_idx, Range.counter, range_initial_len, Counter.fetch_and_add, st, faa,
    bind, M.bind, pure, M.pure, m_fetch_add, St.get_ctr, St.set_ctr, m_cmp]
  simp only [range]
  by_cases h1 : c < b - a
  · simp [h1, M.pure]
  · by_cases h2 : c = b - a <;> simp [h1, h2, M.pure]

/-- **`fetch_n` of a range, every range (also empty, inverted, ending at `usize::MAX`) and every chunk size**: no
overflow in `begin_idx + start`, no underflow in `end_value - start`; the chunk holds exactly the values
`start + b .. start + e` for the model's position interval `[b, e)` — never a value outside the range. -/
theorem range_fetch_n (a b n c : Nat) (evs dr) (ha : a < W) (hb : b < W) :
    Range.fetch_n (range a b) n (st c evs dr) =
      .ok (chunkOfR a (pullRange (b - a) c n)) (st (wrapAdd c n) (evs ++ [faa c n]) dr) := by
  simp only [Range.fetch_n, range_progress, range_initial_len, bind, M.bind, pure, M.pure,
    m_unwrap_or, m_into, m_saturating_add, m_min, m_cmp, op_add, op_sub, m_range, m_map, MMap.m_map, chunkOfR, pullRange]
  simp only [range]
  by_cases h1 : c < b - a
  · -- in range: begin value `c + a < b`
    have hv : c + a < W := by omega
    have hlt : c + a < b := by omega
    have hsat : c + a ≤ satAdd (c + a) n := by unfold satAdd MAXW; unfold W at hv; split <;> omega
    have hsat' : satAdd c n + a ≥ min (satAdd (c + a) n) b ∨ True := Or.inr trivial
    have hge : a ≤ min (satAdd (c + a) n) b := by omega
    have hend : min (satAdd (c + a) n) b - a = max (min (satAdd c n) (b - a)) c := by
      unfold satAdd MAXW; unfold W at *
      by_cases q1 : c + a + n < 18446744073709551616 <;> by_cases q2 : c + n < 18446744073709551616 <;>
        simp only [q1, q2, ↓reduceIte] <;> omega
    simp only [h1, ↓reduceIte, Option.getD_some, hv, hlt, M.pure, M.bind, hge, hend]
    by_cases hs : c = max (min (satAdd c n) (b - a)) c
    · have : ¬ c < max (min (satAdd c n) (b - a)) c := by omega
      simp [← hs, M.pure]
    · have hlt2 : c < max (min (satAdd c n) (b - a)) c := by omega
      have e1 : a + c = c + a := by omega
      have e2 : a + max (min (satAdd c n) (b - a)) c = min (satAdd (c + a) n) b := by omega
      simp [hlt2, hs, e1, e2, M.pure, M.bind]
  · -- at or past the end (also: empty and inverted ranges)
    have hv : b - a + a < W := by omega
    have hm : max (min (satAdd (b - a) n) (b - a)) (b - a) = b - a := by omega
    have hnl : ¬ b - a + a < b := by omega
    have hle : a ≤ b - a + a := by omega
    have he : b - a + a - a = b - a := by omega
    simp only [h1, ↓reduceIte, Option.getD_none, hv, M.pure, M.bind, hnl]
    by_cases h2 : b - a + a = b
    · have hab : a ≤ b := by omega
      simp [h2, hab, hm, M.pure, M.bind]
    · have hz : b - a = 0 := by omega
      have hab : ¬ a < b := by omega
      have hne : ¬ a = b := by omega
      simp [hz, hab, hne, M.pure, M.bind]

theorem range_fetch_one (a b c : Nat) (evs dr) (ha : a < W) (hb : b < W) :
    Range.fetch_one (range a b) (st c evs dr) =
      .ok (if c < b - a then some ⟨c, a + c⟩ else none) (st (wrapAdd c 1) (evs ++ [faa c 1]) dr) := by
  simp only [Range.fetch_one, Range.counter, Range.get, range_initial_len, Counter.fetch_and_increment, st, faa,
    bind, M.bind, pure, M.pure, m_fetch_add, St.get_ctr, St.set_ctr, m_cmp, m_into, op_add, m_map, MMap.m_map]
  simp only [range]
  by_cases h1 : c < b - a
  · have : a + c < W := by omega
    simp [h1, this, M.pure, M.bind]
  · by_cases h2 : c = b - a <;> simp [h1, h2, M.pure, M.bind]

theorem range_early_exit (a b c : Nat) (evs dr) :
    Range.early_exit (range a b) (st c evs dr) = .ok () (st (b - a) (evs ++ [.st (.ctr 0) .seqcst (b - a)]) dr) := by
  simp only [Range.early_exit, Range.counter, range_initial_len, Counter.store, st, bind, M.bind, pure, M.pure, m_store, MStore.m_store, St.set_ctr]
  simp [range]

theorem range_try_get_len (a b c : Nat) (evs dr) :
    Range.try_get_len (range a b) (st c evs dr) =
      .ok (some (lenOf (b - a) c)) (st c (evs ++ [.ld (.ctr 0) .acquire c]) dr) := by
  simp only [Range.try_get_len, Range.counter, range_initial_len, Counter.current, st, lenOf,
    bind, M.bind, pure, M.pure, m_load, MLoad.m_load, St.get_ctr, m_cmp, op_sub]
  simp only [range]
  by_cases h1 : c < b - a
  · have : c ≤ b - a := by omega
    simp [h1, this, M.pure, M.bind]
  · by_cases h2 : c = b - a <;> simp [h1, h2, M.pure, M.bind]

/-- `into_seq_iter` of a range: the remainder starts at `start + min(counter, len)` — computed without overflow —
and ends at `end`: exactly the undelivered values, never one outside the range -/
theorem range_into_seq_iter (a b c : Nat) (evs dr) (ha : a < W) (hb : b < W) :
    Range.into_seq_iter (range a b) (st c evs dr) =
      .ok ⟨a + min c (b - a), b⟩ (st c (evs ++ [.ld (.ctr 0) .acquire c]) dr) := by
  simp only [Range.into_seq_iter, Range.counter, range_initial_len, Counter.current, st,
    bind, M.bind, pure, M.pure, m_load, MLoad.m_load, St.get_ctr, m_min, m_into, op_add, m_range]
  simp only [range]
  have : a + min c (b - a) < W := by omega
  simp [this, M.pure, M.bind]

theorem range_buffered_next (a b n c : Nat) (evs dr) (ha : a < W) (hb : b < W) :
    BufferedIterRange.next ⟨⟨n⟩, range a b⟩ (st c evs dr) =
      .ok (bufChunkR a (b - a) c n) (st (wrapAdd c n) (evs ++ [faa c n]) dr) := by
  simp only [BufferedIterRange.next, BufRange.chunk_size, range_progress, bind, M.bind, pure, M.pure, m_and_then, bufChunkR, pullRange]
  by_cases h1 : c < b - a
  · have hv : c + a < W := by omega
    have hlt : c + a < b := by omega
    have hend : min (satAdd (c + a) n) b = a + max (min (satAdd c n) (b - a)) c := by
      unfold satAdd MAXW; unfold W at *
      by_cases q1 : c + a + n < 18446744073709551616 <;> by_cases q2 : c + n < 18446744073709551616 <;>
        simp only [q1, q2, ↓reduceIte] <;> omega
    have e1 : a + c = c + a := by omega
    simp [h1, BufRange.pull, Range.range, range, bind, M.bind, pure, M.pure, m_into, op_add, m_cmp, m_saturating_add,
      m_min, m_range, m_map, MMap.m_map, hv, hlt, hend, e1]
  · simp [h1, M.pure]

theorem range_next_chunk (a b n : Nat) : Range.next_chunk (range a b) n = Range.fetch_n (range a b) n := rfl
theorem range_next_id_and_value (a b : Nat) : Range.next_id_and_value (range a b) = Range.fetch_one (range a b) := rfl
theorem range_skip_to_end (a b : Nat) : Range.skip_to_end (range a b) = Range.early_exit (range a b) := rfl

end Orx.GenThms
