import Orx.GenThms.Slice
import Orx.GenThms.Vec
import Orx.GenThms.Arr
import Orx.GenThms.Range
import Orx.GenThms.Iter
/-! # The trait's one-line default methods, instantiated per kind (`src/iter/con_iter.rs`)

`ConcurrentIter::next` (`next_id_and_value().map(|x| x.value)`) and `has_more` (`try_get_len` mapped to `Maybe | No | Yes(n)`)
as translated for the four known-size kinds and the wrapper: `next` is `fetch_one` without the index, `has_more` is
the model's `hasMoreOf (lenOf len c)` resp. `moreOf (lenOut …)` from the same single load. -/
namespace Orx.GenThms
open Orx Orx.RS Orx.Gen Orx.KS

theorem hasMore_eq (n : Nat) : (match (some n : Option Nat) with
    | none => HasMore_Maybe | some 0 => HasMore_No | some k => HasMore.yes k) = hasMoreOf n := by
  cases n <;> simp [hasMoreOf, HasMore_No]

theorem slice_next (len c : Nat) (evs dr) :
    Slice.next (slice len) (st c evs dr) = .ok (if c < len then some c else none) (st (wrapAdd c 1) (evs ++ [faa c 1]) dr) := by
  simp only [Slice.next, slice_next_id_and_value, slice_fetch_one, bind, M.bind, pure, M.pure, m_map, MMap.m_map]
  by_cases h : c < len <;> simp [h, M.pure, M.bind]

theorem vec_next (len c : Nat) (evs dr) :
    Vec.next (vec len) (st c evs dr) = .ok (if c < len then some c else none) (st (wrapAdd c 1) (evs ++ [faa c 1]) dr) := by
  simp only [Vec.next, vec_next_id_and_value, vec_fetch_one, bind, M.bind, pure, M.pure, m_map, MMap.m_map]
  by_cases h : c < len <;> simp [h, M.pure, M.bind]

theorem arr_next (len c : Nat) (evs dr) :
    Arr.next len (arr len) (st c evs dr) = .ok (if c < len then some c else none) (st (wrapAdd c 1) (evs ++ [faa c 1]) dr) := by
  simp only [Arr.next, arr_next_id_and_value, arr_fetch_one, bind, M.bind, pure, M.pure, m_map, MMap.m_map]
  by_cases h : c < len <;> simp [h, M.pure, M.bind]

theorem range_next (a b c : Nat) (evs dr) (ha : a < W) (hb : b < W) :
    Range.next (range a b) (st c evs dr) = .ok (if c < b - a then some (a + c) else none) (st (wrapAdd c 1) (evs ++ [faa c 1]) dr) := by
  simp only [Range.next, range_next_id_and_value, range_fetch_one a b c evs dr ha hb, bind, M.bind, pure, M.pure, m_map, MMap.m_map]
  by_cases h : c < b - a <;> simp [h, M.pure, M.bind]

/-- **`has_more` of the known-size kinds**: one `Acquire` load `c`; `Yes(len - c)` while `c < len`, `No` from then on — never
`Maybe` -/
theorem slice_has_more (len c : Nat) (evs dr) :
    Slice.has_more (slice len) (st c evs dr) = .ok (hasMoreOf (lenOf len c)) (st c (evs ++ [.ld (.ctr 0) .acquire c]) dr) := by
  simp only [Slice.has_more, slice_try_get_len, bind, M.bind, pure, M.pure]
  cases h : lenOf len c <;> simp [h, hasMoreOf, HasMore_No, HasMore_Yes, M.pure, M.bind]

theorem vec_has_more (len c : Nat) (evs dr) :
    Vec.has_more (vec len) (st c evs dr) = .ok (hasMoreOf (lenOf len c)) (st c (evs ++ [.ld (.ctr 0) .acquire c]) dr) := by
  simp only [Vec.has_more, vec_try_get_len, bind, M.bind, pure, M.pure]
  cases h : lenOf len c <;> simp [h, hasMoreOf, HasMore_No, HasMore_Yes, M.pure, M.bind]

theorem arr_has_more (len c : Nat) (evs dr) :
    Arr.has_more len (arr len) (st c evs dr) = .ok (hasMoreOf (lenOf len c)) (st c (evs ++ [.ld (.ctr 0) .acquire c]) dr) := by
  simp only [Arr.has_more, arr_try_get_len, bind, M.bind, pure, M.pure]
  cases h : lenOf len c <;> simp [h, hasMoreOf, HasMore_No, HasMore_Yes, M.pure, M.bind]

theorem range_has_more (a b c : Nat) (evs dr) :
    Range.has_more (range a b) (st c evs dr) = .ok (hasMoreOf (lenOf (b - a) c)) (st c (evs ++ [.ld (.ctr 0) .acquire c]) dr) := by
  simp only [Range.has_more, range_try_get_len, bind, M.bind, pure, M.pure]
  cases h : lenOf (b - a) c <;> simp [h, hasMoreOf, HasMore_No, HasMore_Yes, M.pure, M.bind]

/-- **`has_more` of the wrapper** = the model's `moreOf (lenOut …)`: `No` once `completed` is set, `Yes|No` from the claimed
exact length, `Maybe` only for an unknown size -/
theorem iter_has_more (init : Option Nat) (R Y : Nat) (C : Bool) (evs : List Ev) :
    Iter.has_more (iter init) (ist R Y C evs) =
      .ok (IWF.moreOf (IWF.lenOut init C R))
        (ist R Y C (evs ++ [.ld .C .seqcst (if C then 1 else 0)] ++ (if C = false ∧ init.isSome then [.ld .R .acquire R] else []))) := by
  simp only [Iter.has_more, iter_try_get_len, bind, M.bind, pure, M.pure]
  cases h : IWF.lenOut init C R with
  | none => simp [IWF.moreOf, HasMore_Maybe, M.pure]
  | some n => cases n <;> simp [IWF.moreOf, HasMore_No, HasMore_Yes, M.pure, M.bind]

end Orx.GenThms
