import Orx.Generated.Surface
/-! # The crate's surface: which `impl` blocks exist and which functions each defines
(`Generated/Surface.lean`, extracted by `tools/rs2lean.py` from every file under `src/` on every run)

The translated functions are the *bodies* the theorems of `GenThms` talk about. That these bodies are what runs — that no
implementor overrides a default method of `ConcurrentIter` / `AtomicIter` (the loops, `next`, `values`, `has_more`, `fetch_one`),
that no further `Iterator` method is overridden on the value iterators, that no further type has a destructor or is `Clone` —
are facts about the *set of definitions*, stated here. A new `impl` or a new method in an existing one breaks the fact it
falls under (and only that one). -/
namespace Orx.GenThms.Surface
open Orx.Gen

/-- the function lists of all blocks `impl tr for ty` (`tr = ""`: inherent) -/
def fnsOf (tr ty : String) : List (List String) := (surface.filter (fun r => r.tr == tr && r.ty == ty)).map (·.fns)

/-- the types that implement the given trait -/
def implsOf (tr : String) : List String := (surface.filter (fun r => r.tr == tr)).map (·.ty)

/-- the types with the given derive -/
def derivers (d : String) : List String :=
  (surface.filter (fun r => (r.tr == "struct" || r.tr == "enum") && r.fns.contains d)).map (·.ty)

def sameSet (a b : List String) : Bool := a.all (b.contains ·) && b.all (a.contains ·) && a.length == b.length

def implementors : List String :=
  ["ConIterOfSlice", "ConIterOfVec", "ConIterOfArray", "ConIterOfRange", "ConIterOfIter", "Cloned", "Copied"]

/-- the methods of `ConcurrentIter` without a default body -/
def requiredConcurrentIter : List String :=
  ["into_seq_iter", "next_id_and_value", "next_chunk", "buffered_iter", "try_get_len", "skip_to_end"]

/-- the methods of `AtomicIter` without a default body (`fetch_one` has one: `progress_and_get_begin_idx(1)` then `get`) -/
def requiredAtomicIter : List String := ["counter", "progress_and_get_begin_idx", "get", "fetch_n", "early_exit"]

/-- **no implementor overrides a default method of `ConcurrentIter`**: each of the seven `impl ConcurrentIter for …` blocks
defines the six required methods and nothing else — `next`, `values`, `ids_and_values`, `for_each`, `enumerate_for_each`,
`fold`, `has_more` are the trait's defaults for every kind; and there is no eighth implementor -/
theorem concurrent_iter_defaults_are_not_overridden :
    (implementors.all fun x => (fnsOf "ConcurrentIter" x).length == 1 &&
      (fnsOf "ConcurrentIter" x).all (sameSet requiredConcurrentIter)) = true ∧
    sameSet (implsOf "ConcurrentIter") implementors = true ∧
    fnsOf "trait" "ConcurrentIter" = [["into_seq_iter", "next_id_and_value", "next_chunk", "buffered_iter", "next", "values",
      "ids_and_values", "skip_to_end", "for_each", "enumerate_for_each", "fold", "try_get_len", "has_more"]] := by
  decide +kernel

/-- **no implementor overrides `AtomicIter::fetch_one`** (the single pull of every kind is the trait's default body over the
kind's `progress_and_get_begin_idx` and `get`), and the trait has exactly these six methods -/
theorem atomic_iter_defaults_are_not_overridden :
    (implementors.all fun x => (fnsOf "AtomicIter" x).length == 1 &&
      (fnsOf "AtomicIter" x).all (sameSet requiredAtomicIter)) = true ∧
    sameSet (implsOf "AtomicIter") implementors = true ∧
    fnsOf "trait" "AtomicIter" = [["counter", "progress_and_get_begin_idx", "get", "fetch_one", "fetch_n", "early_exit"]] := by
  decide +kernel

/-- **the destructors of the crate**: `Drop` is implemented for the two consuming iterators, the owning chunk iterator `Taken` and
the unwind guard — and for nothing else (no buffered iterator, chunk, adaptor or view runs code when it is dropped) -/
theorem the_destructors :
    sameSet (implsOf "Drop") ["ConIterOfArray", "ConIterOfVec", "Taken", "CompleteOnUnwind"] = true := by
  decide +kernel

/-- **what can be cloned**: hand-written `Clone` for the counter and the slice iterator (each defining `clone` only), derived
`Clone` for the range iterator and for the plain enum `HasMore` — no consuming iterator, no wrapper over an `Iterator`, no
chunk, no buffered iterator is `Clone` -/
theorem the_clonables :
    sameSet (implsOf "Clone") ["AtomicCounter", "ConIterOfSlice"] = true ∧
    fnsOf "Clone" "AtomicCounter" = [["clone"]] ∧ fnsOf "Clone" "ConIterOfSlice" = [["clone"]] ∧
    sameSet (derivers "Clone") ["HasMore", "ConIterOfRange"] = true ∧
    sameSet (derivers "Copy") ["HasMore"] = true := by
  decide +kernel

/-- **the std iterators the crate defines** and what each overrides: the wrapper's chunk value iterator (`next`, `size_hint`;
`len`), `Taken` (`next`, `size_hint`), the two sequential views (`next`) -/
theorem the_iterators :
    sameSet (implsOf "Iterator") ["BufferedIter", "Taken", "ConIterIdsAndValues", "ConIterValues"] = true ∧
    fnsOf "Iterator" "BufferedIter" = [["next", "size_hint"]] ∧ fnsOf "Iterator" "Taken" = [["next", "size_hint"]] ∧
    fnsOf "Iterator" "ConIterIdsAndValues" = [["next"]] ∧ fnsOf "Iterator" "ConIterValues" = [["next"]] ∧
    sameSet (implsOf "ExactSizeIterator") ["BufferedIter", "Taken"] = true ∧
    fnsOf "ExactSizeIterator" "BufferedIter" = [["len"]] ∧ fnsOf "ExactSizeIterator" "Taken" = [[]] := by
  decide +kernel

/-- every chunk puller (`BufferedChunk`) defines `new`, `chunk_size`, `pull` (the trait has no default method), and the buffered
iterator over them has `new` and `next` only (it is not an `Iterator`, has no destructor, cannot be cloned) -/
theorem the_chunk_pullers :
    ((implsOf "BufferedChunk").all fun ty => fnsOf "BufferedChunk" ty == [["new", "chunk_size", "pull"]]) = true ∧
    sameSet (implsOf "BufferedChunk") ["BufferedArray", "ClonedBufferedChunk", "CopiedBufferedChunk", "BufferIter", "BufferedRange",
      "BufferedSlice", "BufferedVec"] = true ∧
    fnsOf "trait" "BufferedChunk" = [["new", "chunk_size", "pull"]] ∧
    -- two types are called `BufferedIter`: the buffered iterator (buffered_iter.rs: `new`, `next`) and the chunk value iterator
    -- of the wrapper (iter.rs: no inherent impl)
    fnsOf "" "BufferedIter" = [["new", "next"]] := by
  decide +kernel

/-- the inherent functions of every type (all other behaviour comes through the traits) and the free functions (the three default
loops): there is no `reset`, `rewind`, `set_position`, … — nothing that could move a counter backwards or re-arm an iterator -/
theorem the_inherent_api :
    fnsOf "" "AtomicCounter" = [["new", "fetch_and_add", "fetch_and_increment", "current", "store", "swap"]] ∧
    fnsOf "" "ConIterOfSlice" = [["new", "as_slice"]] ∧ fnsOf "" "ConIterOfRange" = [["new", "range"]] ∧
    fnsOf "" "ConIterOfVec" = [["new", "take_one", "take_slice", "split_off_right"]] ∧
    fnsOf "" "ConIterOfArray" = [["new", "take_one", "take_slice", "split_off_right"]] ∧
    fnsOf "" "ConIterOfIter" = [["new", "mut_iter", "progress_yielded_counter", "mark_completed", "complete_on_unwind"]] ∧
    fnsOf "" "CompleteOnUnwind" = [["disarm"]] ∧ fnsOf "" "Taken" = [["new"]] ∧
    fnsOf "" "Cloned" = [["new", "underlying_iter"]] ∧ fnsOf "" "Copied" = [["new", "underlying_iter"]] ∧
    sameSet (implsOf "") ["AtomicCounter", "ConIterOfSlice", "ConIterOfRange", "ConIterOfVec", "ConIterOfArray", "ConIterOfIter",
      "CompleteOnUnwind", "Taken", "Cloned", "Copied", "BufferedIter"] = true ∧
    (surface.filter (fun r => r.tr == "fn")).map (·.fns) = [["fold"], ["for_each", "for_each_with_ids"]] := by
  decide +kernel

/-- the fields of the type called `ty` (two types are called `BufferedIter`: both lists are returned) -/
def fieldsOf (ty : String) : List (List String) := fnsOf "fields" ty

/-- **the state of every iterator type is what the model has**: one position counter beside the source for the four known-size
kinds (the vector also remembers its length), the cell of the wrapped iterator, the claimed length, two counters and one flag for
the wrapper; a chunk puller holds its chunk size (the wrapper's: the reused buffer); a buffered iterator holds its puller and a
reference; `Taken` a pointer, a length and a cursor; the views and adaptors a reference / the underlying iterator. No cached
pointer, no second counter, no "missed" or "generation" field anywhere -/
theorem the_state :
    fieldsOf "AtomicCounter" = [["current: AtomicUsize"]] ∧
    fieldsOf "ConIterOfSlice" = [["slice: &'a[T]", "counter: AtomicCounter"]] ∧
    fieldsOf "ConIterOfRange" = [["range: Range<Idx>", "counter: AtomicCounter"]] ∧
    fieldsOf "ConIterOfVec" = [["vec: UnsafeCell<ManuallyDrop<Vec<T>>>", "vec_len: usize", "counter: AtomicCounter"]] ∧
    fieldsOf "ConIterOfArray" = [["array: UnsafeCell<ManuallyDrop<[T;N]>>", "counter: AtomicCounter"]] ∧
    fieldsOf "ConIterOfIter" = [["iter: UnsafeCell<Iter>", "initial_len: Option<usize>", "reserved_counter: AtomicCounter",
      "yielded_counter: AtomicCounter", "completed: AtomicBool"]] ∧
    fieldsOf "CompleteOnUnwind" = [["completed: &'aAtomicBool", "armed: bool"]] ∧
    fieldsOf "Taken" = [["ptr: *mutT", "len: usize", "idx: usize"]] ∧
    fieldsOf "BufferedIter" = [["buffered_iter: B", "atomic_iter: &'aB::ConIter", "phantom: PhantomData<T>"],
      ["values: &'amut[Option<T>]", "initial_len: usize", "current_idx: usize"]] ∧
    fieldsOf "BufferIter" = [["values: Vec<Option<T>>", "phantom: PhantomData<Iter>"]] ∧
    fieldsOf "BufferedSlice" = [["chunk_size: usize", "phantom: PhantomData<T>"]] ∧
    fieldsOf "BufferedVec" = [["chunk_size: usize", "phantom: PhantomData<T>"]] ∧
    fieldsOf "BufferedArray" = [["chunk_size: usize", "phantom: PhantomData<T>"]] ∧
    fieldsOf "BufferedRange" = [["chunk_size: usize"]] ∧
    fieldsOf "ClonedBufferedChunk" = [["chunk: C", "phantom: PhantomData<&'aT>"]] ∧
    fieldsOf "CopiedBufferedChunk" = [["chunk: C", "phantom: PhantomData<&'aT>"]] ∧
    fieldsOf "Cloned" = [["iter: A", "phantom: PhantomData<&'aT>"]] ∧ fieldsOf "Copied" = [["iter: A", "phantom: PhantomData<&'aT>"]] ∧
    fieldsOf "ConIterValues" = [["con_iter: &'aC"]] ∧ fieldsOf "ConIterIdsAndValues" = [["con_iter: &'aC"]] := by
  decide +kernel

/-- **the `From` conversions are the constructors**: `ConIterOfX::from(source)` (and `source.into()`) is `Self::new(source)` for the
five implementors, so everything proved about `new` / `con_iter` / `into_con_iter` (`GenThms/Ctor.lean`) holds for an iterator built
this way; the two views are built from a reference and nothing else -/
theorem the_conversions :
    fnsOf "frombody" "ConIterOfSlice" = [["Self::new(slice)"]] ∧ fnsOf "frombody" "ConIterOfVec" = [["Self::new(vec)"]] ∧
    fnsOf "frombody" "ConIterOfArray" = [["Self::new(array)"]] ∧ fnsOf "frombody" "ConIterOfRange" = [["Self::new(range)"]] ∧
    fnsOf "frombody" "ConIterOfIter" = [["Self::new(iter)"]] ∧
    fnsOf "frombody" "ConIterValues" = [["Self{con_iter}"]] ∧ fnsOf "frombody" "ConIterIdsAndValues" = [["Self{con_iter}"]] ∧
    sameSet (implsOf "From") ["ConIterOfSlice", "ConIterOfVec", "ConIterOfArray", "ConIterOfRange", "ConIterOfIter", "ConIterValues",
      "ConIterIdsAndValues"] = true := by
  decide +kernel

end Orx.GenThms.Surface
