import Orx.GenThms.Proto
import Orx.GenThms.ProtoBuf
/-! # `cloned()` / `copied()` over the wrapper, as translated from the source, are the wrapper's own functions

`Cloned<'a, T, ConIterOfIter<..>>` and `Copied<..>` (`Generated/ProtoIter.lean`: `ClonedI.*`, `CopiedI.*`, and their buffered
chunks `BufClonedI.*`, `BufCopiedI.*`) forward every operation to the wrapped wrapper. The theorems say that the translated
program trees are **equal** to those of `ConIterOfIter`'s functions — same atomic accesses in the same order with the same
orderings, same polls of the wrapped iterator, same values and indices, same end and skip behaviour — for every fuel, chunk
size and environment. (Cloning an element is not an access to shared state and is the identity on positions.) -/
set_option linter.unusedSimpArgs false
namespace Orx.GenThms.Proto
open Orx Orx.RSP Orx.GenP
open Orx.RS (AtomicH CounterSelf AtomicBoolH Next NextChunk Ord3)

/-- calling a translated function and handing its result on unchanged is the function itself (at any result type of the
caller) -/
theorem m_fn_bind_norm {ρ1 ρ2 α β : Type} (b : PF α α) (K : Flow ρ1 α → Prog (Flow ρ2 α))
    (hK : ∀ a, K (.norm a) = .ret (.norm a)) :
    Prog.bind (m_fn b : PF ρ1 α) K = (m_fn b : PF ρ2 α) := by
  unfold m_fn
  rw [bind_assoc]
  congr 1
  funext x
  cases x <;> simp [Prog.bind, hK]

/-- `m_fn (do let t ← F; pure t)` for a translated `F` is `F` -/
theorem m_fn_forward {ρ' α : Type} (b : PF α α) :
    (m_fn (PF.bind (m_fn b : PF α α) (fun t => (pure t : PF α α))) : PF ρ' α) = (m_fn b : PF ρ' α) := by
  show Prog.bind (Prog.bind (m_fn b : PF α α) _) _ = _
  rw [bind_assoc]
  apply m_fn_bind_norm (β := α)
  intro a; rfl

theorem m_fn_idem {ρ' α : Type} (b : PF α α) : (m_fn (m_fn b : PF α α) : PF ρ' α) = (m_fn b : PF ρ' α) := by
  show Prog.bind (m_fn b : PF α α) _ = _
  apply m_fn_bind_norm (β := α)
  intro a; rfl

theorem cloned_progress {ρ' : Type} (f : Nat) (it : IterSelf) (n : Nat) :
    (ClonedI.progress_and_get_begin_idx f ⟨it⟩ n : PF ρ' _) = Iter.progress_and_get_begin_idx f it n := by
  unfold ClonedI.progress_and_get_begin_idx Iter.progress_and_get_begin_idx
  first | exact m_fn_idem _ | exact m_fn_forward _

theorem copied_progress {ρ' : Type} (f : Nat) (it : IterSelf) (n : Nat) :
    (CopiedI.progress_and_get_begin_idx f ⟨it⟩ n : PF ρ' _) = Iter.progress_and_get_begin_idx f it n := by
  unfold CopiedI.progress_and_get_begin_idx Iter.progress_and_get_begin_idx
  first | exact m_fn_idem _ | exact m_fn_forward _

theorem cloned_get {ρ' : Type} (f : Nat) (it : IterSelf) (i : Nat) :
    (ClonedI.get f ⟨it⟩ i : PF ρ' _) = Iter.get f it i := by
  unfold ClonedI.get Iter.get
  simp only [m_cloned, MCloned.m_cloned]
  first | exact m_fn_idem _ | exact m_fn_forward _

theorem copied_get {ρ' : Type} (f : Nat) (it : IterSelf) (i : Nat) :
    (CopiedI.get f ⟨it⟩ i : PF ρ' _) = Iter.get f it i := by
  unfold CopiedI.get Iter.get
  simp only [m_copied, MCloned.m_copied]
  first | exact m_fn_idem _ | exact m_fn_forward _

theorem cloned_early_exit {ρ' : Type} (f : Nat) (it : IterSelf) :
    (ClonedI.early_exit f ⟨it⟩ : PF ρ' _) = Iter.early_exit f it := by
  unfold ClonedI.early_exit Iter.early_exit
  first | exact m_fn_idem _ | exact m_fn_forward _

theorem copied_early_exit {ρ' : Type} (f : Nat) (it : IterSelf) :
    (CopiedI.early_exit f ⟨it⟩ : PF ρ' _) = Iter.early_exit f it := by
  unfold CopiedI.early_exit Iter.early_exit
  first | exact m_fn_idem _ | exact m_fn_forward _

theorem cloned_counter {ρ' : Type} (f : Nat) (it : IterSelf) :
    (ClonedI.counter f ⟨it⟩ : PF ρ' _) = Iter.counter f it := by
  unfold ClonedI.counter Iter.counter
  first | exact m_fn_idem _ | exact m_fn_forward _

theorem copied_counter {ρ' : Type} (f : Nat) (it : IterSelf) :
    (CopiedI.counter f ⟨it⟩ : PF ρ' _) = Iter.counter f it := by
  unfold CopiedI.counter Iter.counter
  first | exact m_fn_idem _ | exact m_fn_forward _

/-- `fetch_one` of the adaptor (the trait's default method, instantiated for it) is the wrapper's: the same `fetch_add` on
the same (reserved) counter, then the wrapper's `get` -/
theorem cloned_fetch_one {ρ' : Type} (f : Nat) (it : IterSelf) :
    (ClonedI.fetch_one f ⟨it⟩ : PF ρ' _) = Iter.fetch_one f it := by
  unfold ClonedI.fetch_one Iter.fetch_one
  simp only [cloned_counter, cloned_get]

theorem copied_fetch_one {ρ' : Type} (f : Nat) (it : IterSelf) :
    (CopiedI.fetch_one f ⟨it⟩ : PF ρ' _) = Iter.fetch_one f it := by
  unfold CopiedI.fetch_one Iter.fetch_one
  simp only [copied_counter, copied_get]


theorem map_chunk_id {ρ : Type} (t1 : Option (NextChunk (List Nat))) :
    (m_map t1 (fun x => (do
      let t2 ← (pure x.values : PF ρ (List Nat))
      pure ({ begin_idx := x.begin_idx, values := t2 } : NextChunk _))) : PF ρ _) = pure t1 := by
  cases t1 with
  | none => rfl
  | some a => cases a; rfl

/-- **`next_chunk` through the adaptor is the wrapper's `next_chunk`**: same reservation, same polls, same begin index and
values (mapping `cloned()` / `copied()` over the chunk's values changes no position) -/
theorem cloned_fetch_n {ρ' : Type} (f : Nat) (it : IterSelf) (n : Nat) :
    (ClonedI.fetch_n f ⟨it⟩ n : PF ρ' _) = Iter.fetch_n f it n := by
  unfold ClonedI.fetch_n Iter.fetch_n
  simp only [m_cloned, MCloned.m_cloned]
  have h : ∀ (t1 : Option (NextChunk (List Nat))), (do
      let t3 ← (m_map t1 (fun x => (do
        let t2 ← (pure x.values : PF (Option (NextChunk (List Nat))) (List Nat))
        pure ({ begin_idx := x.begin_idx, values := t2 } : NextChunk _))) : PF (Option (NextChunk (List Nat))) _)
      pure t3 : PF (Option (NextChunk (List Nat))) _) = pure t1 := by
    intro t1; rw [map_chunk_id]
  simp only [h]
  exact m_fn_forward _

theorem copied_fetch_n {ρ' : Type} (f : Nat) (it : IterSelf) (n : Nat) :
    (CopiedI.fetch_n f ⟨it⟩ n : PF ρ' _) = Iter.fetch_n f it n := by
  unfold CopiedI.fetch_n Iter.fetch_n
  simp only [m_copied, MCloned.m_copied]
  have h : ∀ (t1 : Option (NextChunk (List Nat))), (do
      let t3 ← (m_map t1 (fun x => (do
        let t2 ← (pure x.values : PF (Option (NextChunk (List Nat))) (List Nat))
        pure ({ begin_idx := x.begin_idx, values := t2 } : NextChunk _))) : PF (Option (NextChunk (List Nat))) _)
      pure t3 : PF (Option (NextChunk (List Nat))) _) = pure t1 := by
    intro t1; rw [map_chunk_id]
  simp only [h]
  exact m_fn_forward _


theorem map_opt_id {ρ α : Type} (o : Option α) : (m_map o (fun x => (do let t3 ← (pure x : PF ρ α); pure t3)) : PF ρ _) = pure o := by
  cases o <;> rfl

/-- **a buffered pull through the adaptor is the wrapper's buffered pull** on the wrapped wrapper and the wrapped buffer:
same fill loop, same polls, same publication, the same chunk (its values mapped by `cloned()` / `copied()`) -/
theorem cloned_buf_pull {ρ' : Type} (f : Nat) (c : BufIterSelf) (it : IterSelf) (b : Nat) :
    (BufClonedI.pull f ⟨c⟩ ⟨it⟩ b : PF ρ' _) =
      m_fn (PF.bind (BufIter.pull f c it b : PF _ _) (fun r => (pure (r.1, (⟨r.2⟩ : AdaptBufSelfP)) : PF _ _))) := by
  unfold BufClonedI.pull ClonedI.underlying_iter
  simp only [m_cloned, MCloned.m_cloned, map_opt_id]
  rfl

theorem copied_buf_pull {ρ' : Type} (f : Nat) (c : BufIterSelf) (it : IterSelf) (b : Nat) :
    (BufCopiedI.pull f ⟨c⟩ ⟨it⟩ b : PF ρ' _) =
      m_fn (PF.bind (BufIter.pull f c it b : PF _ _) (fun r => (pure (r.1, (⟨r.2⟩ : AdaptBufSelfP)) : PF _ _))) := by
  unfold BufCopiedI.pull CopiedI.underlying_iter
  simp only [m_copied, MCloned.m_copied, map_opt_id]
  rfl

theorem adapt_buf_chunk_size {ρ' : Type} (f : Nat) (c : BufIterSelf) :
    (BufClonedI.chunk_size f ⟨c⟩ : PF ρ' _) = BufIter.chunk_size f c ∧ (BufCopiedI.chunk_size f ⟨c⟩ : PF ρ' _) = BufIter.chunk_size f c := by
  constructor
  · unfold BufClonedI.chunk_size BufIter.chunk_size; first | exact m_fn_idem _ | exact m_fn_forward _
  · unfold BufCopiedI.chunk_size BufIter.chunk_size; first | exact m_fn_idem _ | exact m_fn_forward _


def aself (vals : List (Option Nat)) : BufferedIterSelfPA := { buffered_iter := { chunk := { values := vals } }, atomic_iter := { iter := iter0 } }

/-- what the buffered pull through an adaptor returns after the fill loop: `tBufNextPublish` with the adaptor's wrappers
around the buffer -/
def tBufNextPublishA {ρ : Type} (b : Nat) (vals : List (Option Nat)) (i : Nat) :
    PF ρ (Option (NextChunk BufferedIter) × BufferedIterSelfPA) :=
  let pub : PF ρ (Option (NextChunk BufferedIter) × BufferedIterSelfPA) :=
    .faa .Y .acqrel vals.length fun old =>
      if old = b then
        .ret (.norm (match i with
          | 0 => (none, aself vals)
          | _ + 1 => (some { begin_idx := b, values := { values := vals, initial_len := i, current_idx := 0 } }, aself vals)))
      else .panic "assert_eq"
  if i < vals.length then .stB .C .seqcst true pub else pub

/-- **the generic `BufferedIter::next` instantiated for `cloned()` / `copied()` over the wrapper is, node for node, the
wrapper's buffered pull** (`buffered_next_tree`): reserve `chunk_size` positions on the wrapper's counter, look at `completed`,
spin for the turn, fill the wrapper's buffer, publish — only the value handed back is wrapped in the adaptor's structs -/
theorem cloned_buffered_next_tree {ρ' : Type} (k : Nat) (vals : List (Option Nat)) :
    (BufferedIterClonedI.next k (aself vals) : PF ρ' _) =
      .faa .R .acqrel vals.length fun b => .ldB .C .seqcst fun c =>
        if c then .ret (.norm (none, aself vals))
        else tWaitLoop (fun o => match o with
          | none => .ret (.norm (none, aself vals))
          | some b' => tFill (tBufNextPublishA b') k vals 0) k b := by
  unfold BufferedIterClonedI.next
  simp only [aself, (adapt_buf_chunk_size k _).1, cloned_progress, cloned_buf_pull]
  simp only [bind, PF.bind, pure, m_fn, BufIter.chunk_size, m_len, Prog.bind, pgb_tree]
  congr 1; funext b; congr 1; funext c
  cases c
  · simp only [Bool.false_eq_true, if_false, bind_tWaitLoop]
    congr 1; funext o
    cases o with
    | none => simp [Prog.bind, m_join, pure, aself]
    | some b' =>
      simp only [Prog.bind, pull_tree, bind_tFill]
      congr 1; funext v j
      unfold tBufPublish tBufNextPublishA
      by_cases hl : j < v.length <;> cases j <;>
        simp [hl, Prog.bind, m_map, MMap.m_map, pure, m_join, aself, bind, PF.bind] <;>
        (funext a; by_cases ha : a = b' <;> simp [ha, Prog.bind])
  · simp [Prog.bind, m_join, pure, aself]

theorem copied_buffered_next_tree {ρ' : Type} (k : Nat) (vals : List (Option Nat)) :
    (BufferedIterCopiedI.next k (aself vals) : PF ρ' _) =
      .faa .R .acqrel vals.length fun b => .ldB .C .seqcst fun c =>
        if c then .ret (.norm (none, aself vals))
        else tWaitLoop (fun o => match o with
          | none => .ret (.norm (none, aself vals))
          | some b' => tFill (tBufNextPublishA b') k vals 0) k b := by
  unfold BufferedIterCopiedI.next
  simp only [aself, (adapt_buf_chunk_size k _).2, copied_progress, copied_buf_pull]
  simp only [bind, PF.bind, pure, m_fn, BufIter.chunk_size, m_len, Prog.bind, pgb_tree]
  congr 1; funext b; congr 1; funext c
  cases c
  · simp only [Bool.false_eq_true, if_false, bind_tWaitLoop]
    congr 1; funext o
    cases o with
    | none => simp [Prog.bind, m_join, pure, aself]
    | some b' =>
      simp only [Prog.bind, pull_tree, bind_tFill]
      congr 1; funext v j
      unfold tBufPublish tBufNextPublishA
      by_cases hl : j < v.length <;> cases j <;>
        simp [hl, Prog.bind, m_map, MMap.m_map, pure, m_join, aself, bind, PF.bind] <;>
        (funext a; by_cases ha : a = b' <;> simp [ha, Prog.bind])
  · simp [Prog.bind, m_join, pure, aself]

end Orx.GenThms.Proto
