import Orx.GenThms.Slice
import Orx.Generated.ArithAdapt
namespace Orx.GenThms
open Orx Orx.RS Orx.Gen Orx.KS

/-! ## `cloned()` / `copied()` over the slice iterator: every function is the underlying function

(the adaptors of `vec.con_iter()` and `array.con_iter()` wrap the same `ConIterOfSlice`) -/

theorem bind_pure_M {α} (m : M α) : (m >>= fun a => (pure a : M α)) = m := by
  funext s
  show (match m s with | .ok a s' => Res.ok a s' | .fail e => Res.fail e) = m s
  cases m s <;> rfl

def cl (len : Nat) : AdaptSelf SliceSelf := ⟨slice len⟩

theorem cloned_progress (len n : Nat) :
    Cloned.progress_and_get_begin_idx (cl len) n = Slice.progress_and_get_begin_idx (slice len) n := by
  unfold Cloned.progress_and_get_begin_idx; rfl
theorem copied_progress (len n : Nat) :
    Copied.progress_and_get_begin_idx (cl len) n = Slice.progress_and_get_begin_idx (slice len) n := by
  unfold Copied.progress_and_get_begin_idx; rfl
theorem cloned_early_exit (len : Nat) : Cloned.early_exit (cl len) = Slice.early_exit (slice len) := by
  unfold Cloned.early_exit; rfl
theorem copied_early_exit (len : Nat) : Copied.early_exit (cl len) = Slice.early_exit (slice len) := by
  unfold Copied.early_exit; rfl
theorem cloned_skip_to_end (len : Nat) : Cloned.skip_to_end (cl len) = Slice.skip_to_end (slice len) := by
  show (Cloned.early_exit (cl len) >>= fun a => pure a) = (Slice.early_exit (slice len) >>= fun a => pure a)
  rw [cloned_early_exit]
theorem copied_skip_to_end (len : Nat) : Copied.skip_to_end (cl len) = Slice.skip_to_end (slice len) := by
  show (Copied.early_exit (cl len) >>= fun a => pure a) = (Slice.early_exit (slice len) >>= fun a => pure a)
  rw [copied_early_exit]
theorem cloned_try_get_len (len : Nat) : Cloned.try_get_len (cl len) = Slice.try_get_len (slice len) := by
  unfold Cloned.try_get_len; rfl
theorem copied_try_get_len (len : Nat) : Copied.try_get_len (cl len) = Slice.try_get_len (slice len) := by
  unfold Copied.try_get_len; rfl
theorem cloned_initial_len (len : Nat) : Cloned.initial_len (cl len) = Slice.initial_len (slice len) := by
  unfold Cloned.initial_len; rfl
theorem copied_initial_len (len : Nat) : Copied.initial_len (cl len) = Slice.initial_len (slice len) := by
  unfold Copied.initial_len; rfl

/-- chunk pulls through the adaptors: same atomic access, same begin index, same positions (cloned lazily) -/
theorem cloned_fetch_n (len n c : Nat) (evs dr) :
    Cloned.fetch_n (cl len) n (st c evs dr) = Slice.fetch_n (slice len) n (st c evs dr) := by
  simp only [Cloned.fetch_n, cl, bind, M.bind, slice_fetch_n, pure, M.pure, m_map, MMap.m_map, m_cloned, MCloned.m_cloned]
  cases chunkOf (pullRange len c n) <;> simp [M.pure, M.bind, bind, pure]

theorem copied_fetch_n (len n c : Nat) (evs dr) :
    Copied.fetch_n (cl len) n (st c evs dr) = Slice.fetch_n (slice len) n (st c evs dr) := by
  simp only [Copied.fetch_n, cl, bind, M.bind, slice_fetch_n, pure, M.pure, m_map, MMap.m_map, m_copied, MCopied.m_copied]
  cases chunkOf (pullRange len c n) <;> simp [M.pure, M.bind, bind, pure]

/-- single pulls: the same access, index and position as the underlying iterator; `cloned()` clones exactly the
delivered element once, `copied()` nothing -/
theorem cloned_fetch_one (len c : Nat) (evs dr) :
    Cloned.fetch_one (cl len) (st c evs dr) =
      .ok (if c < len then some ⟨c, c⟩ else none)
        { st (wrapAdd c 1) (evs ++ [faa c 1]) dr with clones := if c < len then [c] else [] } := by
  simp only [Cloned.fetch_one, Cloned.counter, Cloned.get, Slice.counter, Slice.get, Counter.fetch_and_increment, cl, slice, st, faa,
    bind, M.bind, pure, M.pure, m_fetch_add, St.get_ctr, St.set_ctr, m_get, m_map, MMap.m_map, m_cloned, MCloned.m_cloned]
  by_cases h1 : c < len <;> simp [h1, M.pure, M.bind]

theorem copied_fetch_one (len c : Nat) (evs dr) :
    Copied.fetch_one (cl len) (st c evs dr) = Slice.fetch_one (slice len) (st c evs dr) := by
  rw [slice_fetch_one]
  simp only [Copied.fetch_one, Copied.counter, Copied.get, Slice.counter, Slice.get, Counter.fetch_and_increment, cl, slice, st, faa,
    bind, M.bind, pure, M.pure, m_fetch_add, St.get_ctr, St.set_ctr, m_get, m_map, MMap.m_map, m_copied, MCopied.m_copied]
  by_cases h1 : c < len <;> simp [h1, M.pure, M.bind]

theorem cloned_buffered_next (len n c : Nat) (evs dr) :
    BufferedIterCloned.next ⟨⟨⟨n⟩⟩, cl len⟩ (st c evs dr) = BufferedIterSlice.next ⟨⟨n⟩, slice len⟩ (st c evs dr) := by
  rw [slice_buffered_next]
  simp only [BufferedIterCloned.next, BufCloned.chunk_size, BufSlice.chunk_size, cloned_progress, slice_progress,
    bind, M.bind, pure, M.pure, m_and_then, bufChunk, pullRange]
  by_cases h1 : c < len
  · have hb := endIdx_bounds c n len (by omega)
    simp [h1, BufCloned.pull, Cloned.underlying_iter, cl, BufSlice.pull, Slice.as_slice, slice, bind, M.bind, pure, M.pure, m_len,
      MLen.m_len, m_cmp, m_saturating_add, m_min, m_max, m_index_range, m_iter, MIter.m_iter, m_map, MMap.m_map, hb,
      m_cloned, MCloned.m_cloned]
  · simp [h1, M.pure]

theorem copied_buffered_next (len n c : Nat) (evs dr) :
    BufferedIterCopied.next ⟨⟨⟨n⟩⟩, cl len⟩ (st c evs dr) = BufferedIterSlice.next ⟨⟨n⟩, slice len⟩ (st c evs dr) := by
  rw [slice_buffered_next]
  simp only [BufferedIterCopied.next, BufCopied.chunk_size, BufSlice.chunk_size, copied_progress, slice_progress,
    bind, M.bind, pure, M.pure, m_and_then, bufChunk, pullRange]
  by_cases h1 : c < len
  · have hb := endIdx_bounds c n len (by omega)
    simp [h1, BufCopied.pull, Copied.underlying_iter, cl, BufSlice.pull, Slice.as_slice, slice, bind, M.bind, pure, M.pure, m_len,
      MLen.m_len, m_cmp, m_saturating_add, m_min, m_max, m_index_range, m_iter, MIter.m_iter, m_map, MMap.m_map, hb,
      m_copied, MCopied.m_copied]
  · simp [h1, M.pure]

theorem cloned_into_seq_iter (len c : Nat) (evs dr) :
    Cloned.into_seq_iter (cl len) (st c evs dr) = Slice.into_seq_iter (slice len) (st c evs dr) := by
  simp [Cloned.into_seq_iter, cl, bind, M.bind, slice_into_seq_iter, pure, M.pure, m_cloned, MCloned.m_cloned]

theorem copied_into_seq_iter (len c : Nat) (evs dr) :
    Copied.into_seq_iter (cl len) (st c evs dr) = Slice.into_seq_iter (slice len) (st c evs dr) := by
  simp [Copied.into_seq_iter, cl, bind, M.bind, slice_into_seq_iter, pure, M.pure, m_copied, MCopied.m_copied]

end Orx.GenThms
