import Orx.GenThms.ProtoSim
import Orx.GenThms.ProtoBuf
/-! # Buffered requests of the protocol model are the translated `BufferedIter::next` / `BufferIter::pull`

Same statement as `ProtoSim.lean`, for `Req.buffered n l`: the residual program `treeAtB F k buf pc` of a model thread is
written with the trees of `ProtoBuf.lean` (`tFill`: the fill loop over the reused buffer `buf`, whose stale content is
arbitrary), `reqTreeB_eq` identifies the start of a request with the translated function, `sim_step_buf` shows one model
step = one node. `F` is the fuel of the fill loop (at least the chunk size), `k` the fuel of the spin loop. -/
set_option linter.unusedSimpArgs false
namespace Orx.GenThms.Proto
open Orx Orx.RSP Orx.GenP Orx.IW
open Orx.RS (AtomicH CounterSelf AtomicBoolH Next NextChunk Ord3)

/-- the first `i` slots of the buffer, as the chunk's value iterator hands them out -/
def firsts (vals : List (Option Nat)) (i : Nat) : List Nat := (vals.take i).filterMap id

/-- the buffer after the elements `acc` have been written to its first slots -/
def fillvals (buf : List (Option Nat)) (acc : List Nat) : List (Option Nat) := acc.map some ++ buf.drop acc.length

theorem fillvals_length (buf : List (Option Nat)) (acc : List Nat) (h : acc.length ≤ buf.length) :
    (fillvals buf acc).length = buf.length := by
  simp [fillvals]; omega

theorem fillvals_nil (buf : List (Option Nat)) : fillvals buf [] = buf := by simp [fillvals]

theorem fillvals_set (buf : List (Option Nat)) (acc : List Nat) (x : Nat) (h : acc.length < buf.length) :
    (fillvals buf acc).set acc.length (some x) = fillvals buf (acc ++ [x]) := by
  unfold fillvals
  rw [List.set_append_right _ _ (by simp)]
  simp only [List.length_map, Nat.sub_self, List.map_append, List.map_cons, List.map_nil, List.length_append,
    List.length_singleton, List.append_assoc]
  congr 1
  have hd : buf.drop acc.length = buf[acc.length] :: buf.drop (acc.length + 1) := List.drop_eq_getElem_cons h
  rw [hd, List.set_cons_zero]
  rfl

theorem firsts_fillvals (buf : List (Option Nat)) (acc : List Nat) : firsts (fillvals buf acc) acc.length = acc := by
  unfold firsts fillvals
  rw [List.take_append_of_le_length (by simp)]
  simp [List.take_of_length_le, List.filterMap_map]

/-! ## results as model outputs, residual programs -/

def chunkOut (b : Nat) (vals : List (Option Nat)) (i : Nat) : POut :=
  match i with
  | 0 => .fin
  | _ + 1 => match firsts vals i with
    | [] => .fin
    | v :: rest => .chunk b (v :: rest)

def outBuf : Flow Unit (Option (NextChunk BufferedIter) × BufferedIterSelfP) → Prog POut
  | .norm (none, _) => .ret .fin
  | .norm (some x, _) => .ret (chunkOut x.begin_idx x.values.values x.values.initial_len)
  | _ => .panic "flow"

/-- a buffered request of the model as the call of the translated function on the thread's buffer -/
def reqTreeB (F : Nat) (buf : List (Option Nat)) : Prog POut :=
  Prog.bind (BufferedIterIter.next F (bself buf) : PF Unit _) outBuf

def sBufPub (b : Nat) (vals : List (Option Nat)) (i : Nat) : Prog POut :=
  .faa .Y .acqrel vals.length fun old => if old = b then .ret (chunkOut b vals i) else .panic "assert_eq"

def sBufPublish (b : Nat) (vals : List (Option Nat)) (i : Nat) : Prog POut :=
  if i < vals.length then .stB .C .seqcst true (sBufPub b vals i) else sBufPub b vals i

def KB (F : Nat) (buf : List (Option Nat)) : Option Nat → Prog POut
  | none => .ret .fin
  | some b => tFill (sBufPublish b) F buf 0

/-- the exit half of one poll of the fill loop -/
def tFillExit {β : Type} (REST : List (Option Nat) → Nat → Prog β) (k : Nat) (vals : List (Option Nat)) (i : Nat) : Prog β :=
  .exit fun r => match r with
    | .some x =>
      if i < vals.length then
        if i + 1 < W then
          if i + 1 = vals.length then REST (vals.set i (some x)) (i + 1) else tFill REST k (vals.set i (some x)) (i + 1)
        else .stB .C .seqcst true (.panic "overflow")
      else .stB .C .seqcst true (.panic "index")
    | .none => REST vals i
    | .panic => .stB .C .seqcst true (.panic "next")

def treeAtB (F k : Nat) (buf : List (Option Nat)) : Pc → Prog POut
  | .resv r => .faa .R .acqrel r.len fun b => .ldB .C .seqcst fun c => if c then .ret .fin else tWaitLoop (KB F buf) k b
  | .pre _ b => .ldB .C .seqcst fun c => if c then .ret .fin else tWaitLoop (KB F buf) k b
  | .wait _ b => tWaitLoop (KB F buf) k b
  | .chk _ b => .ldB .C .relaxed fun c => if c then .ret .fin else tWaitLoop (KB F buf) (k - 1) b
  | .ent _ b => .ldB .C .seqcst fun c => if c then .ret .fin else KB F buf (some b)
  | .cs _ b acc => tFill (sBufPublish b) (F - acc.length) (fillvals buf acc) acc.length
  | .ins _ b acc => tFillExit (sBufPublish b) (F - acc.length - 1) (fillvals buf acc) acc.length
  | .setC _ b acc => .stB .C .seqcst true (sBufPub b (fillvals buf acc) acc.length)
  | .pub _ b acc => sBufPub b (fillvals buf acc) acc.length
  | .unw _ _ => .stB .C .seqcst true (.panic "next")
  | .dead _ _ => .panic "next"
  | _ => .spin

theorem bind_tBufNextPublish (b : Nat) (vals : List (Option Nat)) (i : Nat) :
    Prog.bind (tBufNextPublish b vals i) outBuf = sBufPublish b vals i := by
  unfold tBufNextPublish sBufPublish sBufPub
  by_cases hl : i < vals.length <;> cases i <;> simp [hl, Prog.bind, outBuf, chunkOut, bself]

/-- **the start of a buffered request is the translated function** -/
theorem reqTreeB_eq (F : Nat) (buf : List (Option Nat)) (l : Bool) :
    reqTreeB F buf = treeAtB F F buf (.resv (.buffered buf.length l)) := by
  simp only [reqTreeB, buffered_next_tree, treeAtB, Prog.bind, Req.len]
  congr 1; funext b; congr 1; funext c
  cases c
  · simp only [Bool.false_eq_true, if_false, bind_tWaitLoop]
    congr 1; funext o
    cases o with
    | none => simp [Prog.bind, outBuf, KB]
    | some b' =>
      simp only [KB, bind_tFill]
      congr 1; funext v j
      exact bind_tBufNextPublish b' v j
  · simp [Prog.bind, outBuf]

/-! ## one model step = one node -/

/-- shapes of the pcs of a buffered request with chunk size `n` over a buffer of `n` slots (all follow from `Inv`) -/
def WFB (F : Nat) (buf : List (Option Nat)) : Pc → Prop
  | .resv r | .pre r _ | .wait r _ | .chk r _ | .ent r _ =>
    (∃ l, r = .buffered buf.length l) ∧ 1 ≤ buf.length ∧ buf.length < W ∧ buf.length ≤ F
  | .cs r _ acc | .ins r _ acc | .setC r _ acc =>
    (∃ l, r = .buffered buf.length l) ∧ 1 ≤ buf.length ∧ buf.length < W ∧ buf.length ≤ F ∧ acc.length < buf.length
  | .pub r _ acc =>
    (∃ l, r = .buffered buf.length l) ∧ 1 ≤ buf.length ∧ buf.length < W ∧ buf.length ≤ F ∧ acc.length ≤ buf.length
  | _ => True

def contOfB (F k : Nat) (buf : List (Option Nat)) (pc : Pc) : LRes → Prog POut
  | .go pc' => treeAtB F (fuelAfter k pc) buf pc'
  | .done _ o => .ret o

theorem iters_buffered (n : Nat) (l : Bool) (b : Nat) : iters (.buffered n l) b = n := rfl

theorem chunkOut_fill (b : Nat) (buf : List (Option Nat)) (acc : List Nat) :
    chunkOut b (fillvals buf acc) acc.length = match acc with | [] => .fin | v :: rest => .chunk b (v :: rest) := by
  cases acc with
  | nil => rfl
  | cons v rest =>
    simp only [chunkOut, List.length_cons]
    rw [show rest.length + 1 = (v :: rest).length from rfl, firsts_fillvals]

/-- **One step of the model's thread inside a buffered request is one node of the source's tree.** -/
theorem sim_step_buf (F k : Nat) (buf : List (Option Nat)) (pc : Pc) (resp : Resp) (hk : 1 ≤ k) (hw : WFB F buf pc)
    (hr : RespOk pc resp) (hact : actOf pc ≠ none) (hskp : pc ≠ .skp) :
    head (treeAtB F k buf pc) = actOf pc ∧
    child (treeAtB F k buf pc) resp = some (contOfB F k buf pc (lstep pc resp)) := by
  obtain ⟨k', rfl⟩ : ∃ k', k = k' + 1 := ⟨k - 1, by omega⟩
  cases pc with
  | idle => simp [actOf] at hact
  | dead b n => simp [actOf] at hact
  | skp => exact absurd rfl hskp
  | unw b n =>
    cases resp <;> simp [RespOk] at hr
    exact ⟨rfl, rfl⟩
  | resv r =>
    cases resp <;> simp [RespOk] at hr
    exact ⟨rfl, rfl⟩
  | pre r b =>
    cases resp with
    | bool v => cases v <;> exact ⟨rfl, rfl⟩
    | _ => simp [RespOk] at hr
  | chk r b =>
    cases resp with
    | bool v => cases v <;> exact ⟨rfl, rfl⟩
    | _ => simp [RespOk] at hr
  | wait r b =>
    cases resp with
    | nat y =>
      refine ⟨rfl, ?_⟩
      simp only [treeAtB, tWaitLoop, child, lstep]
      by_cases h1 : b = y
      · subst h1; simp [contOfB, treeAtB, fuelAfter, KC_none, KB]
      · by_cases h2 : b < y
        · simp [h1, h2, contOfB, KB]
        · simp [h1, h2, contOfB, treeAtB, fuelAfter, KB]
    | _ => simp [RespOk] at hr
  | ent r b =>
    obtain ⟨⟨l, rfl⟩, h1, hW, hF⟩ := hw
    cases resp with
    | bool v =>
      cases v
      · refine ⟨rfl, ?_⟩
        have hn0 : buf.length ≠ 0 := by omega
        simp [treeAtB, child, lstep, iters_buffered, contOfB, fuelAfter, KB, hn0, fillvals_nil]
      · exact ⟨rfl, rfl⟩
    | _ => simp [RespOk] at hr
  | cs r b acc =>
    obtain ⟨⟨l, rfl⟩, h1, hW, hF, hacc⟩ := hw
    cases resp <;> simp [RespOk] at hr
    have hm : F - acc.length = (F - acc.length - 1) + 1 := by omega
    refine ⟨?_, ?_⟩
    · simp only [treeAtB]; rw [hm]; rfl
    · simp only [treeAtB, lstep, contOfB, fuelAfter]; rw [hm]; rfl
  | ins r b acc =>
    obtain ⟨⟨l, rfl⟩, h1, hW, hF, hacc⟩ := hw
    cases resp with
    | src x =>
      refine ⟨rfl, ?_⟩
      have hfl : (fillvals buf acc).length = buf.length := fillvals_length buf acc (by omega)
      cases x with
      | some v =>
        have hw1 : acc.length + 1 < W := by omega
        simp only [treeAtB, tFillExit, child, lstep, iters_buffered, Req.len, contOfB, fuelAfter, List.length_append,
          List.length_singleton, hfl, hacc, if_true, hw1, fillvals_set buf acc v hacc]
        by_cases he : acc.length + 1 = buf.length
        · have hnl : ¬ (acc.length + 1 < buf.length) := by omega
          simp only [he, if_true, Nat.lt_irrefl, if_false]
          simp only [sBufPublish, treeAtB, List.length_append, List.length_singleton]
          rw [fillvals_length buf (acc ++ [v]) (by simp; omega)]
          simp [he]
        · have hm : F - acc.length - 1 = F - (acc.length + 1) := by omega
          simp [he, treeAtB, hm]
      | none =>
        simp [treeAtB, tFillExit, child, lstep, contOfB, fuelAfter, sBufPublish, hfl, hacc]
      | panic => simp [treeAtB, tFillExit, child, lstep, contOfB, fuelAfter, Req.len]
    | _ => simp [RespOk] at hr
  | setC r b acc =>
    obtain ⟨⟨l, rfl⟩, h1, hW, hF, hacc⟩ := hw
    cases resp <;> simp [RespOk] at hr
    exact ⟨rfl, rfl⟩
  | pub r b acc =>
    obtain ⟨⟨l, rfl⟩, h1, hW, hF, hacc⟩ := hw
    cases resp with
    | nat v =>
      have hv : v = b := by simpa [RespOk, Req.isSingle] using hr
      subst hv
      have hfl : (fillvals buf acc).length = buf.length := fillvals_length buf acc hacc
      refine ⟨by simp [treeAtB, sBufPub, head, actOf, Req.len, hfl], ?_⟩
      simp only [treeAtB, sBufPub, child, if_true, chunkOut_fill, lstep, contOfB]
      cases acc <;> simp [Req.isSingle]
    | _ => simp [RespOk] at hr

/-- the request a pc works on -/
def pcReq : Pc → Option Req
  | .resv r | .pre r _ | .wait r _ | .chk r _ | .ent r _ | .cs r _ _ | .ins r _ _ | .setC r _ _ | .pub r _ _ => some r
  | _ => none

/-- **Along every run**: a model thread inside a buffered request over a buffer of `n` slots (whatever stale content)
performs the accesses of the translated `BufferedIter::next`/`BufferIter::pull`, for every fuel `F ≥ n` of the fill loop
and `k ≥ 1` of the spin loop. The shape conditions follow from the protocol invariant. -/
theorem model_buffered_thread_follows_source (s : Script) (ps : Nat → List Req) (hps : ∀ t, ∀ r ∈ ps t, ReqOk r)
    (σ : List Nat) (hW : (IW.run s σ (init ps)).R < W) (t F k : Nat) (hk : 1 ≤ k) (buf : List (Option Nat))
    (hn : buf.length < W) (hF : buf.length ≤ F) (l : Bool)
    (hreq : ∀ r, pcReq ((IW.run s σ (init ps)).th t).pc = some r → r = .buffered buf.length l)
    (ha : actOf ((IW.run s σ (init ps)).th t).pc ≠ none) (hskp : ((IW.run s σ (init ps)).th t).pc ≠ .skp) :
    let c := IW.run s σ (init ps)
    let pc := (c.th t).pc
    head (treeAtB F k buf pc) = actOf pc ∧
    child (treeAtB F k buf pc) (respOf s c pc) = some (contOfB F k buf pc (lstep pc (respOf s c pc))) ∧
    step s t c = setTh (effOf c pc) t (applyL (c.th t) (lstep pc (respOf s c pc))) := by
  intro c pc
  have hi : Inv s c := inv_run σ (inv_init s ps hps) hW
  have hwf : WFB F buf (c.th t).pc := by
    cases hpc : (c.th t).pc with
    | resv r =>
      have := hreq r (by simp [c] at hpc; simp [hpc, pcReq]); subst this
      have h1 := hi.resvOk t _ hpc
      exact ⟨⟨l, rfl⟩, by simpa [Req.len] using h1, hn, hF⟩
    | pre r b =>
      have := hreq r (by simp [c] at hpc; simp [hpc, pcReq]); subst this
      have h1 := (hi.tk t b buf.length (by simp [hpc, Pc.ticket, Req.len])).1
      exact ⟨⟨l, rfl⟩, by simpa [Req.len] using h1, hn, hF⟩
    | wait r b =>
      have := hreq r (by simp [c] at hpc; simp [hpc, pcReq]); subst this
      have h1 := (hi.tk t b buf.length (by simp [hpc, Pc.ticket, Req.len])).1
      exact ⟨⟨l, rfl⟩, by simpa [Req.len] using h1, hn, hF⟩
    | chk r b =>
      have := hreq r (by simp [c] at hpc; simp [hpc, pcReq]); subst this
      have h1 := (hi.tk t b buf.length (by simp [hpc, Pc.ticket, Req.len])).1
      exact ⟨⟨l, rfl⟩, by simpa [Req.len] using h1, hn, hF⟩
    | ent r b =>
      have := hreq r (by simp [c] at hpc; simp [hpc, pcReq]); subst this
      have h1 := (hi.tk t b buf.length (by simp [hpc, Pc.ticket, Req.len])).1
      exact ⟨⟨l, rfl⟩, by simpa [Req.len] using h1, hn, hF⟩
    | cs r b acc =>
      have := hreq r (by simp [c] at hpc; simp [hpc, pcReq]); subst this
      have h1 := (hi.tk t b buf.length (by simp [hpc, Pc.ticket, Req.len])).1
      have h2 := hi.csLt t _ b acc (Or.inl hpc)
      exact ⟨⟨l, rfl⟩, by simpa [Req.len] using h1, hn, hF, by simpa [Req.len] using h2⟩
    | ins r b acc =>
      have := hreq r (by simp [c] at hpc; simp [hpc, pcReq]); subst this
      have h1 := (hi.tk t b buf.length (by simp [hpc, Pc.ticket, Req.len])).1
      have h2 := hi.csLt t _ b acc (Or.inr (Or.inl hpc))
      exact ⟨⟨l, rfl⟩, by simpa [Req.len] using h1, hn, hF, by simpa [Req.len] using h2⟩
    | setC r b acc =>
      have := hreq r (by simp [c] at hpc; simp [hpc, pcReq]); subst this
      have h1 := (hi.tk t b buf.length (by simp [hpc, Pc.ticket, Req.len])).1
      have h2 := hi.csLt t _ b acc (Or.inr (Or.inr hpc))
      exact ⟨⟨l, rfl⟩, by simpa [Req.len] using h1, hn, hF, by simpa [Req.len] using h2⟩
    | pub r b acc =>
      have := hreq r (by simp [c] at hpc; simp [hpc, pcReq]); subst this
      have h1 := (hi.tk t b buf.length (by simp [hpc, Pc.ticket, Req.len])).1
      have h2 := (hi.accOk t b buf.length (by simp [hpc, Pc.ticket, Req.len])).2
      exact ⟨⟨l, rfl⟩, by simpa [Req.len] using h1, hn, hF, by simpa [hpc, Pc.acc, Req.len] using h2⟩
    | _ => trivial
  have hs := sim_step_buf F k buf pc (respOf s c pc) hk hwf (respOk_of_inv hi t ha) ha hskp
  exact ⟨hs.1, hs.2, step_local s t c ha⟩

end Orx.GenThms.Proto
