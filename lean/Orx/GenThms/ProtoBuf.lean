import Orx.GenThms.Proto
/-! # The buffered pull of the wrapper, as translated from the source

`BufferIter::pull` (a `loop` over mutable locals and the reused `Vec<Option<T>>`), `BufferedIter::next` of
buffered/buffered_iter.rs instantiated with it, and the chunk's value iterator `BufferedIter::next` of buffered/iter.rs
(`Generated/ProtoIter.lean`), computed as trees like the functions of `Proto.lean`. -/
set_option linter.unusedSimpArgs false
namespace Orx.GenThms.Proto
open Orx Orx.RSP Orx.GenP
open Orx.RS (AtomicH CounterSelf AtomicBoolH Next NextChunk Ord3)

/-! ## `BufferIter::pull`: filling the reused buffer -/

/-- the fill loop of `pull` as a tree: `k` iterations of fuel, the buffer `vals`, `i` slots filled so far; `REST` is what
follows the loop with the buffer and the number of filled slots. A panic inside the guarded region (the wrapped iterator,
an index out of range, an overflowing count) first stores `completed := true`. -/
def tFill {β : Type} (REST : List (Option Nat) → Nat → Prog β) : Nat → List (Option Nat) → Nat → Prog β
  | 0, _, _ => .spin
  | k + 1, vals, i => .enter (.exit fun r => match r with
    | .some x =>
      if i < vals.length then
        if i + 1 < W then
          if i + 1 = vals.length then REST (vals.set i (some x)) (i + 1) else tFill REST k (vals.set i (some x)) (i + 1)
        else .stB .C .seqcst true (.panic "overflow")
      else .stB .C .seqcst true (.panic "index")
    | .none => REST vals i
    | .panic => .stB .C .seqcst true (.panic "next"))

/-- one iteration of the fill loop -/
def nfFillBody {ρ : Type} (st : BufIterSelf × Nat) : PF (Sum (BufIterSelf × Nat) ρ) (BufIterSelf × Nat) :=
  .enter (.exit fun r => match r with
    | .some x =>
      if st.2 < st.1.values.length then
        if st.2 + 1 < W then
          if st.2 + 1 = st.1.values.length then .ret (.retn (Sum.inl ({ values := st.1.values.set st.2 (some x) }, st.2 + 1)))
          else .ret (.norm ({ values := st.1.values.set st.2 (some x) }, st.2 + 1))
        else .panic "overflow"
      else .panic "index"
    | .none => .ret (.retn (Sum.inl st))
    | .panic => .panic "next")

theorem pull_loop1 {ρ : Type} (k : Nat) (h : WrappedH) (st : BufIterSelf × Nat) :
    (BufIter.pull.loop1 k h st : PF (Sum _ ρ) _) = nfFillBody st := by
  unfold BufIter.pull.loop1 nfFillBody
  simp only [bind, PF.bind, Prog.bind, pure, m_next]
  congr 1; congr 1; funext r
  cases r with
  | some x =>
    simp only [Prog.bind, m_set_index]
    by_cases h1 : st.2 < st.1.values.length
    · simp only [h1, if_true, pure, Prog.bind, op_add]
      by_cases h2 : st.2 + 1 < W
      · simp only [h2, if_true, pure, Prog.bind, BufIter.chunk_size, m_fn, m_len, op_eq, bind, PF.bind, List.length_set]
        by_cases h3 : st.2 + 1 = st.1.values.length
        · simp [h3, Prog.bind, m_break_st]
        · simp [h3, Prog.bind]
      · simp [h2, Prog.bind]
    · simp [h1, Prog.bind]
  | none => simp [Prog.bind, m_break_st]
  | panic => simp [Prog.bind]


theorem fill_tree {ρ β : Type} (F : Flow ρ (BufIterSelf × Nat) → Prog β) (k : Nat) (st : BufIterSelf × Nat) :
    Prog.bind (Prog.guarded (.stB .C .seqcst true (.ret ())) (m_loop_st k st (nfFillBody (ρ := ρ)))) F
      = tFill (fun vals i => F (.norm ({ values := vals }, i))) k st.1.values st.2 := by
  induction k generalizing st with
  | zero => rfl
  | succ k ih =>
    rw [m_loop_st, tFill]
    conv => lhs; arg 1; arg 2; arg 1; unfold nfFillBody
    simp only [Prog.bind, Prog.guarded]
    congr 1; congr 1; funext r
    cases r with
    | some x =>
      by_cases h1 : st.2 < st.1.values.length
      · by_cases h2 : st.2 + 1 < W
        · by_cases h3 : st.2 + 1 = st.1.values.length
          · simp [h1, h2, h3, Prog.bind, Prog.guarded]
          · simp only [h1, h2, h3, if_true, if_false, Prog.bind, Prog.guarded]
            exact ih _
        · simp [h1, h2, Prog.bind, Prog.guarded]
      · simp [h1, Prog.bind, Prog.guarded]
    | none => simp [Prog.bind, Prog.guarded]
    | panic => simp [Prog.bind, Prog.guarded]

/-- what `pull` does after the fill loop: mark the end if the buffer is not full, publish the buffer's size on `yielded`
(asserting nobody else did), hand out the value iterator over the filled slots (`None` if there are none) -/
def tBufPublish {ρ : Type} (b : Nat) (vals : List (Option Nat)) (i : Nat) :
    PF ρ (Option BufferedIter × BufIterSelf) :=
  let pub : PF ρ (Option BufferedIter × BufIterSelf) :=
    .faa .Y .acqrel vals.length fun old =>
      if old = b then
        .ret (.norm (match i with
          | 0 => (none, { values := vals })
          | _ + 1 => (some { values := vals, initial_len := i, current_idx := 0 }, { values := vals })))
      else .panic "assert_eq"
  if i < vals.length then .stB .C .seqcst true pub else pub

theorem guarded_bind_ret {α β : Type} (g : Prog Unit) (m : Prog α) (f : α → β) :
    Prog.guarded g (Prog.bind m (fun x => .ret (f x))) = Prog.bind (Prog.guarded g m) (fun x => .ret (f x)) := by
  induction m with
  | ret a => rfl
  | faa l o n k ih => simp only [Prog.bind, Prog.guarded]; congr 1; funext v; exact ih v
  | ldN l o k ih => simp only [Prog.bind, Prog.guarded]; congr 1; funext v; exact ih v
  | ldB l o k ih => simp only [Prog.bind, Prog.guarded]; congr 1; funext v; exact ih v
  | stB l o v k ih => simp only [Prog.bind, Prog.guarded]; congr 1
  | enter k ih => simp only [Prog.bind, Prog.guarded]; congr 1
  | exit k ih => simp only [Prog.bind, Prog.guarded]; congr 1; funext v; exact ih v
  | panic m =>
    simp only [Prog.bind, Prog.guarded, bind_assoc]
  | spin => rfl

/-- the shape in which the fill loop appears in the unfolded `pull` -/
theorem fill_general {ρ β γ : Type} (body : BufIterSelf × Nat → PF (Sum (BufIterSelf × Nat) ρ) (BufIterSelf × Nat))
    (hb : ∀ st, body st = nfFillBody st)
    (sw : Flow ρ (BufIterSelf × Nat) → Prog (Flow ρ (Nat × BufIterSelf)))
    (hsw : ∀ x, sw x = .ret (match x with | .norm a => .norm (a.2, a.1) | .retn r => .retn r | .brk => .brk))
    (F1 : Flow ρ (Nat × BufIterSelf) → Prog β) (F2 : β → Prog γ) (T : List (Option Nat) → Nat → Prog γ)
    (hF : ∀ vals i, Prog.bind (F1 (.norm (i, { values := vals }))) F2 = T vals i) (k : Nat) (st : BufIterSelf × Nat) :
    Prog.bind (Prog.bind (Prog.guarded (.stB .C .seqcst true (.ret ())) (Prog.bind (m_loop_st k st body) sw)) F1) F2
      = tFill T k st.1.values st.2 := by
  have h1 : body = nfFillBody := funext hb
  have h2 : sw = fun x => .ret (match x with | .norm a => .norm (a.2, a.1) | .retn r => .retn r | .brk => .brk) := funext hsw
  subst h1 h2
  rw [guarded_bind_ret, bind_assoc, bind_assoc, fill_tree]
  congr 1; funext vals i
  simpa [Prog.bind] using hF vals i

/-- **`BufferIter::pull` as in the source** -/
theorem pull_tree {ρ' : Type} (k b : Nat) (buf : BufIterSelf) :
    (BufIter.pull k buf iter0 b : PF ρ' _) = tFill (tBufPublish b) k buf.values 0 := by
  unfold BufIter.pull
  simp only [bind, PF.bind, pure, m_fn, Iter.mut_iter, Iter.complete_on_unwind, Prog.bind, m_guarded, Guard.drop, m_store,
    iter0_C, if_true]
  apply fill_general
  · intro st; exact pull_loop1 k _ st
  · intro x; cases x <;> rfl
  · intro vals i
    simp only [Guard.disarm, Guard.drop, m_fn, bind, PF.bind, Prog.bind, pure, BufIter.chunk_size, m_len, op_lt, Iter.mark_completed,
      m_store, iter0_C, Iter.progress_yielded_counter, Counter.fetch_and_add, m_fetch_add, iter0_Y, m_assert_eq, tBufPublish]
    by_cases hl : i < vals.length
    · cases i with
      | zero =>
        simp only [hl, decide_true, if_true, Prog.bind, Bool.false_eq_true, if_false]
        congr 1; congr 1; funext a
        by_cases ha : a = b <;> simp [ha, Prog.bind]
      | succ j =>
        simp only [hl, decide_true, if_true, Prog.bind, Bool.false_eq_true, if_false]
        congr 1; congr 1; funext a
        by_cases ha : a = b <;> simp [ha, Prog.bind]
    · cases i with
      | zero =>
        simp only [hl, decide_false, Bool.false_eq_true, if_false, Prog.bind]
        congr 1; funext a
        by_cases ha : a = b <;> simp [ha, Prog.bind]
      | succ j =>
        simp only [hl, decide_false, Bool.false_eq_true, if_false, Prog.bind]
        congr 1; funext a
        by_cases ha : a = b <;> simp [ha, Prog.bind]


/-! ## the chunk's value iterator (`BufferedIter::next` of buffered/iter.rs) -/

/-- **`next` of the chunk's value iterator as in the source**: while `current_idx < initial_len` it takes the slot at
`current_idx` (leaving `None` there); an element advances the cursor by one, an empty slot ends the iteration
(`current_idx := initial_len`); it never reads a slot at or beyond `initial_len`. No atomic access. -/
theorem chunk_next_tree {ρ' : Type} (k : Nat) (it : BufferedIter) :
    (ChunkIt.next k it : PF ρ' _) =
      if it.current_idx < it.initial_len then
        match it.values[it.current_idx]? with
        | none => .panic "index"
        | some none => .ret (.norm (none, { it with values := it.values.set it.current_idx none, current_idx := it.initial_len }))
        | some (some v) =>
          if it.current_idx + 1 < W then
            .ret (.norm (some v, { it with values := it.values.set it.current_idx none, current_idx := it.current_idx + 1 }))
          else .panic "overflow"
      else .ret (.norm (none, it)) := by
  unfold ChunkIt.next
  by_cases h : it.current_idx < it.initial_len
  · simp only [h, if_true, bind, PF.bind, pure, m_fn, op_lt, Prog.bind, decide_true, m_index]
    cases hv : it.values[it.current_idx]? with
    | none => simp [Prog.bind]
    | some o =>
      have hlen : it.current_idx < it.values.length := by
        rcases List.getElem?_eq_some_iff.mp hv with ⟨h', _⟩; exact h'
      cases o with
      | none => simp [Prog.bind, m_set_index, hlen, pure, m_is_some, m_the]
      | some v =>
        by_cases h2 : it.current_idx + 1 < W
        · simp [Prog.bind, m_set_index, hlen, pure, m_is_some, m_the, op_add, h2]
        · simp [Prog.bind, m_set_index, hlen, pure, m_is_some, m_the, op_add, h2]
  · simp [h, bind, PF.bind, pure, m_fn, op_lt, Prog.bind, m_the]


/-! ## `BufferedIter::next` of buffered/buffered_iter.rs over the wrapper: reserve, wait, pull -/

theorem bind_tFill {β γ : Type} (REST : List (Option Nat) → Nat → Prog β) (f : β → Prog γ) (k : Nat)
    (vals : List (Option Nat)) (i : Nat) :
    Prog.bind (tFill REST k vals i) f = tFill (fun v j => Prog.bind (REST v j) f) k vals i := by
  induction k generalizing vals i with
  | zero => rfl
  | succ k ih =>
    simp only [tFill, Prog.bind]
    congr 1; congr 1; funext r
    cases r with
    | some x =>
      by_cases h1 : i < vals.length
      · by_cases h2 : i + 1 < W
        · by_cases h3 : i + 1 = vals.length
          · have h2' : vals.length < W := h3 ▸ h2
            simp [h1, h2', h3]
          · simp only [h1, h2, h3, if_true, if_false]; exact ih _ _
        · simp [h1, h2, Prog.bind]
      · simp [h1, Prog.bind]
    | none => rfl
    | panic => rfl

def bself (vals : List (Option Nat)) : BufferedIterSelfP := { buffered_iter := { values := vals }, atomic_iter := iter0 }

/-- what the buffered pull returns to its caller after the fill loop -/
def tBufNextPublish {ρ : Type} (b : Nat) (vals : List (Option Nat)) (i : Nat) :
    PF ρ (Option (NextChunk BufferedIter) × BufferedIterSelfP) :=
  let pub : PF ρ (Option (NextChunk BufferedIter) × BufferedIterSelfP) :=
    .faa .Y .acqrel vals.length fun old =>
      if old = b then
        .ret (.norm (match i with
          | 0 => (none, bself vals)
          | _ + 1 => (some { begin_idx := b, values := { values := vals, initial_len := i, current_idx := 0 } }, bself vals)))
      else .panic "assert_eq"
  if i < vals.length then .stB .C .seqcst true pub else pub

/-- **the buffered pull of the wrapper as in the source** (`BufferedIter::next` of buffered_iter.rs with `BufferIter::pull`):
reserve `chunk_size` positions, look at `completed`, spin until the ticket's turn, fill the buffer, publish -/
theorem buffered_next_tree {ρ' : Type} (k : Nat) (vals : List (Option Nat)) :
    (BufferedIterIter.next k (bself vals) : PF ρ' _) =
      .faa .R .acqrel vals.length fun b => .ldB .C .seqcst fun c =>
        if c then .ret (.norm (none, bself vals))
        else tWaitLoop (fun o => match o with
          | none => .ret (.norm (none, bself vals))
          | some b' => tFill (tBufNextPublish b') k vals 0) k b := by
  unfold BufferedIterIter.next
  simp only [bind, PF.bind, pure, m_fn, BufIter.chunk_size, m_len, Prog.bind, bself, pgb_tree]
  congr 1; funext b; congr 1; funext c
  cases c
  · simp only [Bool.false_eq_true, if_false, bind_tWaitLoop]
    congr 1; funext o
    cases o with
    | none => simp [Prog.bind, m_join, pure]
    | some b' =>
      simp only [Prog.bind, pull_tree, bind_tFill]
      congr 1; funext v j
      unfold tBufPublish tBufNextPublish
      by_cases hl : j < v.length <;> cases j <;>
        simp [hl, Prog.bind, m_map, MMap.m_map, pure, m_join, bself, bind, PF.bind] <;>
        (funext a; by_cases ha : a = b' <;> simp [ha, Prog.bind])
  · simp [Prog.bind, m_join, pure]

/-- `ExactSizeIterator::len` of the chunk's value iterator: what is left of the announced length; no underflow as long as the
cursor has not passed it (`next` never moves it further: `chunk_next_tree`) -/
theorem chunk_len {ρ' : Type} (k : Nat) (it : BufferedIter) (h : it.current_idx ≤ it.initial_len) :
    (ChunkIt.len k it : PF ρ' _) = .ret (.norm (it.initial_len - it.current_idx)) := by
  simp [ChunkIt.len, m_fn, bind, PF.bind, Prog.bind, op_sub, h, pure]

/-- `Iterator::size_hint` of the chunk's value iterator is exact — `(len, Some(len))`, std's requirement on an
`ExactSizeIterator` (repaired by `bfb3855`: it was std's default `(0, None)`) -/
theorem chunk_size_hint {ρ' : Type} (k : Nat) (it : BufferedIter) (h : it.current_idx ≤ it.initial_len) :
    (ChunkIt.size_hint k it : PF ρ' _) = .ret (.norm (it.initial_len - it.current_idx, some (it.initial_len - it.current_idx))) := by
  simp [ChunkIt.size_hint, m_fn, bind, PF.bind, Prog.bind, op_sub, h, pure]

theorem collect_nones {ρ : Type} (lo : Nat) : ∀ (k i : Nat) (acc : List (Option Nat)),
    collectAux (ρ := ρ) (fun i => (do
      match ← (pure (some (lo + i)) : PF ρ (Option Nat)) with
      | none => pure none
      | some a => do let b ← (pure none : PF ρ (Option Nat)); pure (some b))) k i acc = pure (acc ++ List.replicate k none)
  | 0, i, acc => by simp [collectAux]
  | k + 1, i, acc => by
    have ih := collect_nones (ρ := ρ) lo k (i + 1) (acc ++ [none])
    simp only [collectAux, bind, PF.bind, Prog.bind, pure] at ih ⊢
    rw [ih]
    simp [List.replicate_succ, List.append_assoc]

/-- **`BufferIter::new(chunk_size)` as in the source**: the reusable buffer has exactly `chunk_size` empty slots (the documented
allocation of a buffered iterator over a wrapped iterator), no atomic access, nothing else -/
theorem buf_new {ρ' : Type} (f n : Nat) : (BufIter.new f n : PF ρ' _) = .ret (.norm ⟨List.replicate n none⟩) := by
  have h := collect_nones (ρ := BufIterSelf) 0 n 0 []
  simp only [BufIter.new, m_fn, bind, PF.bind, Prog.bind, pure, m_range, m_map, MMap.m_map, m_collect, Nat.sub_zero] at h ⊢
  rw [h]
  simp [Prog.bind]

/-- the chunk value iterator defines `next`, `size_hint` and `len` only and has no destructor: `nth`, `last`, `fold`, `count`, …
are std's defaults over `next` (so `chunk_next_tree` covers them), and an unconsumed slot simply stays in the buffer that owns it -/
theorem chunk_iterator_defines_next_and_len_only :
    ChunkIt.iterator_overrides = ["next", "size_hint"] ∧ ChunkIt.exact_size_overrides = ["len"] ∧ ChunkIt.has_drop = false := by decide

end Orx.GenThms.Proto
