import Orx.GenThms.Basic
import Orx.Generated.ArithCtor
/-! # Construction and cloning as translated from the source (`Generated/ArithCtor.lean`)

A new concurrent iterator is its storage plus a fresh position counter. The theorems say, for every collection length and
every counter value: the constructors (`new`, `con_iter`, `into_con_iter`) start the counter at 0 and perform no atomic
access and no access to the elements; `Clone` of the slice iterator (what `vec.con_iter()`, `array.con_iter()` and
`slice.into_con_iter()` return) performs exactly one `SeqCst` load of the original's counter and starts the clone there, over
the same slice, leaving the original untouched — the model's `clone` step. `ConIterOfRange` derives `Clone`: field by field,
i.e. the same range and `AtomicCounter::clone`. -/
namespace Orx.GenThms
open Orx Orx.RS Orx.Gen Orx.KS

theorem counter_new (s : St) : NewCounter.new () s = .ok ⟨0⟩ s := rfl

theorem counter_clone (c : Nat) (evs dr) :
    NewCounter.clone {} (st c evs dr) = .ok ⟨c⟩ (st c (evs ++ [.ld (.ctr 0) .seqcst c]) dr) := rfl

theorem slice_new (len : Nat) (s : St) : NewSlice.new ⟨len⟩ s = .ok ⟨⟨len⟩, ⟨0⟩⟩ s := rfl

/-- **`Clone for ConIterOfSlice`**: the same slice; one `SeqCst` load `c` of the original's counter; the clone starts at `c`;
the original's counter is not written -/
theorem slice_clone (len c : Nat) (evs dr) :
    NewSlice.clone ⟨⟨len⟩, {}⟩ (st c evs dr) = .ok ⟨⟨len⟩, ⟨c⟩⟩ (st c (evs ++ [.ld (.ctr 0) .seqcst c]) dr) := rfl

theorem range_new (a b : Nat) (s : St) : NewRange.new ⟨a, b⟩ s = .ok ⟨⟨a, b⟩, ⟨0⟩⟩ s := rfl

/-- what `#[derive(Clone)]` generates for `ConIterOfRange { range, counter }`: `Clone::clone` of each field -/
def Range.clone_derived (self : RangeSelf) : M RangeNew := do
  let r ← m_clone self.range
  let c ← NewCounter.clone self.counter
  pure ⟨r, c⟩

/-- `ConIterOfRange` derives `Clone` and has no hand-written one -/
theorem range_clone_is_derived : "Clone" ∈ Range.derives ∧ Range.manual_clone = false := by decide

/-- the hand-written `Clone` impls define `clone` only: `clone_from` / `ToOwned::clone_into` are std's defaults,
`*self = source.clone()` -/
theorem clone_impls_define_clone_only : NewSlice.clone_methods = ["clone"] ∧ NewCounter.clone_methods = ["clone"] := by decide

theorem range_clone (a b c : Nat) (evs dr) :
    Range.clone_derived ⟨⟨a, b⟩, {}⟩ (st c evs dr) = .ok ⟨⟨a, b⟩, ⟨c⟩⟩ (st c (evs ++ [.ld (.ctr 0) .seqcst c]) dr) := rfl

theorem vec_new (len : Nat) (s : St) : NewVec.new ⟨len⟩ s = .ok ⟨⟨len⟩, len, ⟨0⟩⟩ s := rfl
theorem arr_new (len : Nat) (s : St) : NewArr.new ⟨len⟩ s = .ok ⟨⟨len⟩, ⟨0⟩⟩ s := rfl

/-- **`con_iter()` of a vector, an array, a slice and a range**: an iterator over the same elements in place (a slice of the
same length: no element is read, moved or copied), starting at position 0, without any atomic access -/
theorem con_iter_in_place (len a b : Nat) (s : St) :
    CtorVec.con_iter ⟨len⟩ s = .ok ⟨⟨len⟩, ⟨0⟩⟩ s ∧ CtorArr.con_iter ⟨len⟩ s = .ok ⟨⟨len⟩, ⟨0⟩⟩ s ∧
    CtorSlice.con_iter ⟨len⟩ s = .ok ⟨⟨len⟩, ⟨0⟩⟩ s ∧ CtorSlice.into_con_iter ⟨len⟩ s = .ok ⟨⟨len⟩, ⟨0⟩⟩ s ∧
    CtorRange.con_iter ⟨a, b⟩ s = .ok ⟨⟨a, b⟩, ⟨0⟩⟩ s ∧ CtorRange.into_con_iter ⟨a, b⟩ s = .ok ⟨⟨a, b⟩, ⟨0⟩⟩ s :=
  ⟨rfl, rfl, rfl, rfl, rfl, rfl⟩

theorem into_con_iter_consuming (len : Nat) (s : St) :
    CtorVec.into_con_iter ⟨len⟩ s = .ok ⟨⟨len⟩, len, ⟨0⟩⟩ s ∧ CtorArr.into_con_iter ⟨len⟩ s = .ok ⟨⟨len⟩, ⟨0⟩⟩ s := ⟨rfl, rfl⟩

/-- the exact length the wrapper records for an iterator whose `size_hint()` is `(lo, hi)`: known only when the upper bound
exists and equals the lower one -/
def claimedLen (h : Nat × Option Nat) : Option Nat :=
  match h.2 with
  | some u => if h.1 = u then some h.1 else none
  | none => none

/-- **`ConIterOfIter::new` as in the source**: the length is recorded exactly when the size hint is exact (lower = upper),
whatever the value (also `usize::MAX`); otherwise it is unknown. Both counters start at 0, `completed` is false, and
`size_hint` is the only thing asked of the iterator — here, before it is shared. -/
theorem iter_new (h : Nat × Option Nat) (s : St) :
    NewIter.new ⟨h⟩ s = .ok ⟨⟨h⟩, claimedLen h, ⟨0⟩, ⟨0⟩, false⟩ s := by
  obtain ⟨lo, hi⟩ := h
  cases hi with
  | none => rfl
  | some u =>
    by_cases e : lo = u <;>
      simp [NewIter.new, claimedLen, bind, M.bind, pure, M.pure, m_size_hint, op_eq, e, m_into, NewCounter.new]

end Orx.GenThms
