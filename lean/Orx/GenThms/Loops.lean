import Orx.RS.Loop
import Orx.Generated.Loops
/-! # The default loops as translated from the source are the model's loops (`Generated/Loops.lean`)

`specLoop` / `specFold` are the loops of the model (`KS.stepRest` at pc `.loop`), written as trees: pull — `fetch_add(1)`
for chunk size 1, `fetch_add(n)` otherwise —; if the value read is below the length, call the closure on exactly the
positions that pull handed out, in order, with the position as index in the enumerated form; repeat; return when a pull
reads a value at or beyond the length. The theorems say that the trees translated from `default_fns/for_each.rs` and
`default_fns/fold.rs` are **equal** to these, for every length, every chunk size `≥ 1` and every fuel; chunk size 0 panics. -/
namespace Orx.GenThms.Loops
open Orx Orx.RSL Orx.GenL
open Orx.RS (Next NextChunk Span)

variable {α : Type}

/-- the positions a pull of the loop hands out when its `fetch_add` read `c` (`c < len`): as in `KS.stepRest` -/
def pulled (len n c : Nat) : List Nat :=
  KS.rangeList (if n = 1 then c else (KS.pullRange len c n).1) (if n = 1 then c + 1 else (KS.pullRange len c n).2)

/-- call the closure on `ps`, in order (a panicking call ends the thread's loop), then go on with `k` -/
def visitSeq (withIdx : Bool) : List Nat → LProg α → LProg α
  | [], k => k
  | p :: ps, k => .visit (if withIdx then some p else none) p (fun pk => if pk then .panic "closure" else visitSeq withIdx ps k)

def visitFold (g : Nat → Nat → Nat) : List Nat → Nat → (Nat → LProg α) → LProg α
  | [], acc, k => k acc
  | p :: ps, acc, k => .visit none p (fun pk => if pk then .panic "closure" else visitFold g ps (g acc p) k)

/-- the model's `for_each` / `enumerate_for_each` loop -/
def specLoop {ρ : Type} (len n : Nat) (withIdx : Bool) : Nat → PF ρ Unit
  | 0 => .spin
  | k + 1 => .faa .acqrel n (fun c =>
      if c < len then visitSeq withIdx (pulled len n c) (specLoop len n withIdx k) else .ret (.norm ()))

/-- the model's `fold` loop -/
def specFold {ρ : Type} (len n : Nat) (g : Nat → Nat → Nat) : Nat → Nat → PF ρ Nat
  | 0, _ => .spin
  | k + 1, acc => .faa .acqrel n (fun c =>
      if c < len then visitFold g (pulled len n c) acc (specFold len n g k) else .ret (.norm acc))

/-! ## std iteration over a chunk = the visits -/

theorem forEach_bind {ρ β : Type} (f : Closure1) (ps : List Nat) (k : Unit → PF ρ β) :
    PF.bind (forEachAux (m_call1 f) ps) k = visitSeq false ps (k ()) := by
  induction ps with
  | nil => rfl
  | cons p ps ih =>
    simp only [forEachAux, bind, PF.bind, LProg.bind, m_call1, visitSeq] at ih ⊢
    congr 1
    funext pk
    cases pk
    · simp only [Bool.false_eq_true, ↓reduceIte, LProg.bind]; exact ih
    · simp [LProg.bind]

theorem forIn_idx_bind {ρ β : Type} (f : ClosureIdx) (b : Nat) (ps : List Nat) (j : Nat) (k : Unit → PF ρ β)
    (hb : ∀ i, i < ps.length → b + (j + i) < W) (hp : ∀ i (h : i < ps.length), ps[i] = b + (j + i)) :
    PF.bind (forInAux (fun (x : Nat × Nat) => (do
        let t13 ← op_add b x.1
        let t14 ← m_call2 f t13 x.2
        pure () : PF ρ Unit)) ((ps.zipIdx j).map fun (p, i) => (i, p))) k = visitSeq true ps (k ()) := by
  induction ps generalizing j with
  | nil => rfl
  | cons p ps ih =>
    have h0 := hb 0 (by simp)
    have hp0 := hp 0 (by simp)
    simp only [List.getElem_cons_zero, Nat.add_zero] at hp0 h0
    subst hp0
    have ih' := ih (j + 1) (fun i hi => by have := hb (i + 1) (by simp; omega); omega)
      (fun i hi => by have := hp (i + 1) (by simp; omega); simp only [List.getElem_cons_succ] at this; omega)
    simp only [List.zipIdx_cons, List.map_cons, forInAux, bind, PF.bind, LProg.bind, op_add, h0, ↓reduceIte, pure, m_call2,
      MCall2.m_call2, visitSeq] at ih' ⊢
    congr 1
    funext pk
    cases pk
    · simp only [Bool.false_eq_true, ↓reduceIte, LProg.bind]; exact ih'
    · simp [LProg.bind]

theorem forInSt_bind {ρ β : Type} (f : ClosureFold) (ps : List Nat) (acc : Nat) (k : Nat → PF ρ β) :
    PF.bind (forInStAux (fun (st__ : Nat) (value : Nat) => (do
        let mut result := st__
        let t8 ← m_call2 f result value
        result := t8
        pure result : PF ρ Nat)) ps acc) k = visitFold f.g ps acc k := by
  induction ps generalizing acc with
  | nil => rfl
  | cons p ps ih =>
    simp only [forInStAux, bind, PF.bind, LProg.bind, m_call2, MCall2.m_call2, visitFold, pure] at ih ⊢
    congr 1
    funext pk
    cases pk
    · simp only [Bool.false_eq_true, ↓reduceIte, LProg.bind]; exact ih (f.g acc p)
    · simp [LProg.bind]


/-! ## binding a continuation to a sequence of visits -/

theorem visitSeq_bind {β : Type} (w : Bool) (ps : List Nat) (k : LProg α) (f : α → LProg β) :
    (visitSeq w ps k).bind f = visitSeq w ps (k.bind f) := by
  induction ps with
  | nil => rfl
  | cons p ps ih =>
    simp only [visitSeq, LProg.bind]
    congr 1
    funext pk
    cases pk <;> simp [LProg.bind, ih]

theorem visitFold_bind {β : Type} (g : Nat → Nat → Nat) (ps : List Nat) (acc : Nat) (k : Nat → LProg α) (f : α → LProg β) :
    (visitFold g ps acc k).bind f = visitFold g ps acc (fun a => (k a).bind f) := by
  induction ps generalizing acc with
  | nil => rfl
  | cons p ps ih =>
    simp only [visitFold, LProg.bind]
    congr 1
    funext pk
    cases pk <;> simp [LProg.bind, ih]

theorem pulled_one (len c : Nat) : pulled len 1 c = [c] := by simp [pulled, KS.rangeList]

theorem pulled_many (len n c : Nat) (hn : n ≠ 1) (hc : c < len) :
    pulled len n c = KS.rangeList c (KS.pullRange len c n).2 := by
  simp [pulled, hn, KS.pullRange, hc]

/-! ## a `loop` whose body is "pull; visit what was pulled or break" is the model's loop -/

/-- the shape of all four loop bodies of `for_each` / `for_each_with_ids` -/
def bodyOf {ρ : Type} (len n : Nat) (w : Bool) : PF ρ Unit :=
  .faa .acqrel n (fun c => if c < len then visitSeq w (pulled len n c) (.ret (.norm ())) else .ret .brk)

theorem m_loop_body {ρ : Type} (len n : Nat) (w : Bool) : ∀ fuel, (m_loop fuel (bodyOf len n w) : PF ρ Unit) = specLoop len n w fuel
  | 0 => rfl
  | k + 1 => by
    have ih := m_loop_body (ρ := ρ) len n w k
    simp only [m_loop, bodyOf, LProg.bind, specLoop] at ih ⊢
    congr 1
    funext c
    by_cases hc : c < len
    · simp only [hc, ↓reduceIte, visitSeq_bind, LProg.bind]; rw [ih]
    · simp [hc, LProg.bind]

def bodyFoldOf {ρ : Type} (len n : Nat) (g : Nat → Nat → Nat) (acc : Nat) : PF (Sum Nat ρ) Nat :=
  .faa .acqrel n (fun c => if c < len then visitFold g (pulled len n c) acc (fun a => .ret (.norm a)) else .ret (.retn (Sum.inl acc)))

theorem m_loop_st_body {ρ : Type} (len n : Nat) (g : Nat → Nat → Nat) : ∀ fuel acc,
    (m_loop_st fuel acc (bodyFoldOf len n g) : PF ρ Nat) = specFold len n g fuel acc
  | 0, _ => rfl
  | k + 1, acc => by
    simp only [m_loop_st, bodyFoldOf, LProg.bind, specFold]
    congr 1
    funext c
    by_cases hc : c < len
    · simp only [hc, ↓reduceIte, visitFold_bind, LProg.bind]
      congr 1
      funext a
      exact m_loop_st_body len n g k a
    · simp [hc, LProg.bind]

/-! ## the bodies translated from the source have that shape -/

theorem for_each_body1 {ρ : Type} (len f' : Nat) (f : Closure1) :
    (Loops.for_each.loop1 f' ⟨len⟩ f : PF ρ Unit) = bodyOf len 1 false := by
  simp only [Loops.for_each.loop1, m_next, MNext.m_next, ItH.next, bind, PF.bind, LProg.bind, bodyOf, pulled_one]
  congr 1
  funext c
  by_cases hc : c < len
  · simp only [hc, ↓reduceIte, m_call1, LProg.bind, visitSeq, pure]
    congr 1
    funext pk
    cases pk <;> simp [LProg.bind]
  · simp [hc, m_break, LProg.bind, pure]

theorem for_each_body2 {ρ : Type} (len n f' : Nat) (f : Closure1) (hn : n ≠ 1) :
    (Loops.for_each.loop2 f' f ⟨n, ⟨len⟩⟩ : PF ρ Unit) = bodyOf len n false := by
  simp only [Loops.for_each.loop2, m_next, MNext.m_next, BufH.next, bind, PF.bind, LProg.bind, bodyOf]
  congr 1
  funext c
  by_cases hc : c < len
  · have h := forEach_bind (ρ := ρ) f (KS.rangeList c (KS.pullRange len c n).2) (fun _ => (LProg.ret (Flow.norm ()) : PF ρ Unit))
    simp only [PF.bind] at h
    simp only [hc, ↓reduceIte, pulled_many len n c hn hc, m_for_each, spanList, pure, h, visitSeq_bind, LProg.bind]
  · simp [hc, m_break, LProg.bind, pure]

theorem for_each_ids_body1 {ρ : Type} (len f' : Nat) (f : ClosureIdx) :
    (Loops.for_each_with_ids.loop1 f' ⟨len⟩ f : PF ρ Unit) = bodyOf len 1 true := by
  simp only [Loops.for_each_with_ids.loop1, m_next_id_and_value, bind, PF.bind, LProg.bind, bodyOf, pulled_one]
  congr 1
  funext c
  by_cases hc : c < len
  · simp only [hc, ↓reduceIte, m_call2, MCall2.m_call2, LProg.bind, visitSeq, pure]
    congr 1
    funext pk
    cases pk <;> simp [LProg.bind]
  · simp [hc, m_break, LProg.bind, pure]

theorem rangeList_getElem (b e i : Nat) (h : i < (KS.rangeList b e).length) : (KS.rangeList b e)[i] = b + i := by
  simp [KS.rangeList]; omega

theorem for_each_ids_body2 {ρ : Type} (len n f' : Nat) (f : ClosureIdx) (hn : n ≠ 1) (hw : len < W) :
    (Loops.for_each_with_ids.loop2 f' f ⟨n, ⟨len⟩⟩ : PF ρ Unit) = bodyOf len n true := by
  simp only [Loops.for_each_with_ids.loop2, m_next, MNext.m_next, BufH.next, bind, PF.bind, LProg.bind, bodyOf]
  congr 1
  funext c
  by_cases hc : c < len
  · have hle : (KS.pullRange len c n).2 ≤ len := by simp only [KS.pullRange, hc, ↓reduceIte]; omega
    have hlen : (KS.rangeList c (KS.pullRange len c n).2).length = (KS.pullRange len c n).2 - c := by simp [KS.rangeList]
    have h := forIn_idx_bind (ρ := ρ) f c (KS.rangeList c (KS.pullRange len c n).2) 0 (fun _ => (LProg.ret (Flow.norm ()) : PF ρ Unit))
      (fun i hi => by rw [hlen] at hi; omega)
      (fun i hi => by rw [rangeList_getElem]; omega)
    simp only [bind, PF.bind, pure] at h
    simp only [hc, ↓reduceIte, pulled_many len n c hn hc, m_enumerate, spanList, pure, LProg.bind, m_for_in, MForIn.m_for_in, h,
      visitSeq_bind]
  · simp [hc, m_break, LProg.bind, pure]

theorem fold_body1 {ρ : Type} (len f' : Nat) (f : ClosureFold) (acc : Nat) :
    (Loops.fold.loop1 f' ⟨len⟩ f acc : PF (Sum Nat ρ) Nat) = bodyFoldOf len 1 f.g acc := by
  simp only [Loops.fold.loop1, m_next, MNext.m_next, ItH.next, bind, PF.bind, LProg.bind, bodyFoldOf, pulled_one]
  congr 1
  funext c
  by_cases hc : c < len
  · simp only [hc, ↓reduceIte, m_call2, MCall2.m_call2, LProg.bind, visitFold, pure]
    congr 1
    funext pk
    cases pk <;> simp [LProg.bind]
  · simp [hc, m_break_st, LProg.bind, pure]

theorem fold_body2 {ρ : Type} (len n f' : Nat) (f : ClosureFold) (acc : Nat) (hn : n ≠ 1) :
    (Loops.fold.loop2 f' f ⟨n, ⟨len⟩⟩ acc : PF (Sum Nat ρ) Nat) = bodyFoldOf len n f.g acc := by
  simp only [Loops.fold.loop2, m_next, MNext.m_next, BufH.next, bind, PF.bind, LProg.bind, bodyFoldOf]
  congr 1
  funext c
  by_cases hc : c < len
  · have h := forInSt_bind (ρ := Sum Nat ρ) f (KS.rangeList c (KS.pullRange len c n).2) acc (fun a => (LProg.ret (Flow.norm a) : PF (Sum Nat ρ) Nat))
    simp only [bind, PF.bind, pure] at h
    simp only [hc, ↓reduceIte, pulled_many len n c hn hc, m_for_in_st, MForIn.m_for_in_st, spanList, pure, LProg.bind, h, visitFold_bind]
  · simp [hc, m_break_st, LProg.bind, pure]

/-! ## function boundaries -/

theorem specLoop_fn {ρ ρ' : Type} (len n : Nat) (w : Bool) (K : Flow ρ Unit → PF ρ' Unit)
    (hK : K (.norm ()) = .ret (.norm ())) : ∀ fuel,
    LProg.bind (specLoop (ρ := ρ) len n w fuel) K = specLoop (ρ := ρ') len n w fuel
  | 0 => rfl
  | k + 1 => by
    simp only [specLoop, LProg.bind]
    congr 1
    funext c
    by_cases hc : c < len
    · simp only [hc, ↓reduceIte, visitSeq_bind]; rw [specLoop_fn len n w K hK k]
    · simp [hc, LProg.bind, hK]

theorem specFold_fn {ρ ρ' : Type} (len n : Nat) (g : Nat → Nat → Nat) (K : Flow ρ Nat → PF ρ' Nat)
    (hK : ∀ a, K (.norm a) = .ret (.norm a)) : ∀ fuel acc,
    LProg.bind (specFold (ρ := ρ) len n g fuel acc) K = specFold (ρ := ρ') len n g fuel acc
  | 0, _ => rfl
  | k + 1, acc => by
    simp only [specFold, LProg.bind]
    congr 1
    funext c
    by_cases hc : c < len
    · simp only [hc, ↓reduceIte, visitFold_bind]
      congr 1
      funext a
      exact specFold_fn len n g K hK k a
    · simp [hc, LProg.bind, hK]

/-! ## the three default loops -/

/-- **`for_each` as in the source is the model's loop**, for every length, every chunk size `≥ 1` (size 1 pulls one by
one, the others through a buffered iterator) and every fuel: pull; call the closure on exactly what was pulled, in order;
return when a pull finds the end -/
theorem for_each_is_model_loop {ρ' : Type} (len n fuel : Nat) (f : Closure1) (hn : 0 < n) :
    (Loops.for_each fuel ⟨len⟩ n f : PF ρ' Unit) = specLoop len n false fuel := by
  have hgt : decide (n > 0) = true := by simp; omega
  by_cases h1 : n = 1
  · subst h1
    simp only [Loops.for_each, m_fn, bind, PF.bind, LProg.bind, op_gt, pure, m_assert, hgt, decide_true, ↓reduceIte, for_each_body1,
      m_loop_body]
    rw [specLoop_fn (ρ' := Unit) len 1 false _ (by rfl) fuel, specLoop_fn len 1 false _ (by rfl) fuel]
  · obtain ⟨m, rfl⟩ : ∃ m, n = m + 2 := ⟨n - 2, by omega⟩
    simp only [Loops.for_each, m_fn, bind, PF.bind, LProg.bind, op_gt, pure, m_assert, hgt, decide_true, ↓reduceIte, m_buffered_iter, hn,
      for_each_body2 len (m + 2) fuel f h1, m_loop_body]
    rw [specLoop_fn (ρ' := Unit) len (m + 2) false _ (by rfl) fuel, specLoop_fn len (m + 2) false _ (by rfl) fuel]

/-- chunk size 0 panics, as documented -/
theorem for_each_zero_panics {ρ' : Type} (len fuel : Nat) (f : Closure1) :
    (Loops.for_each fuel ⟨len⟩ 0 f : PF ρ' Unit) = .panic "assert" := by
  simp [Loops.for_each, m_fn, bind, PF.bind, LProg.bind, op_gt, pure, m_assert]

/-- **`enumerate_for_each` as in the source**: the same loop, and the index handed to the closure is the source position of
the element (`begin_idx + i` of the buffered path does not overflow and equals the position) -/
theorem for_each_with_ids_is_model_loop {ρ' : Type} (len n fuel : Nat) (f : ClosureIdx) (hn : 0 < n) (hw : len < W) :
    (Loops.for_each_with_ids fuel ⟨len⟩ n f : PF ρ' Unit) = specLoop len n true fuel := by
  have hgt : decide (n > 0) = true := by simp; omega
  by_cases h1 : n = 1
  · subst h1
    simp only [Loops.for_each_with_ids, m_fn, bind, PF.bind, LProg.bind, op_gt, pure, m_assert, hgt, decide_true, ↓reduceIte,
      for_each_ids_body1, m_loop_body]
    rw [specLoop_fn (ρ' := Unit) len 1 true _ (by rfl) fuel, specLoop_fn len 1 true _ (by rfl) fuel]
  · obtain ⟨m, rfl⟩ : ∃ m, n = m + 2 := ⟨n - 2, by omega⟩
    simp only [Loops.for_each_with_ids, m_fn, bind, PF.bind, LProg.bind, op_gt, pure, m_assert, hgt, decide_true, ↓reduceIte, m_buffered_iter, hn,
      for_each_ids_body2 len (m + 2) fuel f h1 hw, m_loop_body]
    rw [specLoop_fn (ρ' := Unit) len (m + 2) true _ (by rfl) fuel, specLoop_fn len (m + 2) true _ (by rfl) fuel]

theorem for_each_with_ids_zero_panics {ρ' : Type} (len fuel : Nat) (f : ClosureIdx) :
    (Loops.for_each_with_ids fuel ⟨len⟩ 0 f : PF ρ' Unit) = .panic "assert" := by
  simp [Loops.for_each_with_ids, m_fn, bind, PF.bind, LProg.bind, op_gt, pure, m_assert]

/-- **`fold` as in the source**: the same pulls; the accumulator starts at `neutral`, is threaded through the closure over
exactly the pulled elements in order, and is returned when a pull finds the end -/
theorem fold_is_model_loop {ρ' : Type} (len n fuel neutral : Nat) (f : ClosureFold) (hn : 0 < n) :
    (Loops.fold fuel ⟨len⟩ n f neutral : PF ρ' Nat) = specFold len n f.g fuel neutral := by
  have hgt : decide (n > 0) = true := by simp; omega
  by_cases h1 : n = 1
  · subst h1
    have hb : (Loops.fold.loop1 (ρ := Nat) fuel ⟨len⟩ f) = bodyFoldOf len 1 f.g := funext (fold_body1 len fuel f)
    simp only [Loops.fold, m_fn, bind, PF.bind, LProg.bind, op_gt, pure, m_assert, hgt, decide_true, ↓reduceIte, hb, m_loop_st_body]
    rw [specFold_fn (ρ' := Nat) len 1 f.g _ (by intro a; rfl) fuel neutral, specFold_fn len 1 f.g _ (by intro a; rfl) fuel neutral]
  · obtain ⟨m, rfl⟩ : ∃ m, n = m + 2 := ⟨n - 2, by omega⟩
    have hb : (Loops.fold.loop2 (ρ := Nat) fuel f ⟨m + 2, ⟨len⟩⟩) = bodyFoldOf len (m + 2) f.g := funext (fun a => fold_body2 len (m + 2) fuel f a h1)
    simp only [Loops.fold, m_fn, bind, PF.bind, LProg.bind, op_gt, pure, m_assert, hgt, decide_true, ↓reduceIte, m_buffered_iter, hn, hb, m_loop_st_body]
    rw [specFold_fn (ρ' := Nat) len (m + 2) f.g _ (by intro a; rfl) fuel neutral, specFold_fn len (m + 2) f.g _ (by intro a; rfl) fuel neutral]

theorem fold_zero_panics {ρ' : Type} (len fuel neutral : Nat) (f : ClosureFold) :
    (Loops.fold fuel ⟨len⟩ 0 f neutral : PF ρ' Nat) = .panic "assert" := by
  simp [Loops.fold, m_fn, bind, PF.bind, LProg.bind, op_gt, pure, m_assert]

/-- `ConcurrentIter::{for_each, enumerate_for_each, fold}` hand their arguments to these functions unchanged -/
theorem dispatch_as_expected : Loops.dispatch =
    [("for_each", "default_fns::for_each::for_each(self,chunk_size,fun)"),
     ("enumerate_for_each", "default_fns::for_each::for_each_with_ids(self,chunk_size,fun)"),
     ("fold", "default_fns::fold::fold(self,chunk_size,fold,neutral)")] := by decide


/-! ## the iterator adaptors behind `values()` / `ids_and_values()` (`src/iter/wrappers/*.rs`) -/

/-- `ConIterValues::next` is `ConcurrentIter::next` of the wrapped iterator: one `fetch_add(1)`, the element at the value read -/
theorem values_next {ρ' : Type} (f : Nat) (it : ItH) :
    (Values.next f ⟨it⟩ : PF ρ' _) = .faa .acqrel 1 (fun c => .ret (.norm (if c < it.len then some c else none))) := by
  simp only [Values.next, m_fn, m_next, MNext.m_next, ItH.next, bind, PF.bind, LProg.bind, pure]

/-- `ConIterIdsAndValues::next`: the same pull, returning the pair (source index, element) -/
theorem ids_and_values_next {ρ' : Type} (f : Nat) (it : ItH) :
    (IdsAndValues.next f ⟨it⟩ : PF ρ' _) = .faa .acqrel 1 (fun c => .ret (.norm (if c < it.len then some (c, c) else none))) := by
  simp only [IdsAndValues.next, m_fn, m_next_id_and_value, bind, PF.bind, LProg.bind, pure, m_map]
  congr 1
  funext c
  by_cases h : c < it.len <;> simp [h, m_map, LProg.bind, pure, bind, PF.bind]

/-- both adaptors define `next` only: `nth`, `skip`, `step_by`, `count`, … are std's defaults over `next`, i.e. sequences of
single pulls -/
theorem wrappers_override_only_next : Values.iterator_overrides = ["next"] ∧ IdsAndValues.iterator_overrides = ["next"] := by decide

end Orx.GenThms.Loops
