import Orx.GenThms.Basic
import Orx.Generated.ArithNew
namespace Orx.GenThms
open Orx Orx.RS Orx.Gen Orx.KS

/-- `BufferedIter::new` panics (assertion) exactly for chunk size 0 -/
theorem buffered_new_zero_panics (s : St) : BufferedIterNew.new ⟨0⟩ () s = .fail .assertion := by
  simp [BufferedIterNew.new, BufAny.chunk_size, bind, M.bind, pure, M.pure, op_gt, m_assert, M.failWith]

theorem buffered_new_positive (n : Nat) (h : 0 < n) (s : St) :
    ∃ r, BufferedIterNew.new ⟨n⟩ () s = .ok r s ∧ r.buffered_iter.chunk_size = n := by
  simp [BufferedIterNew.new, BufAny.chunk_size, bind, M.bind, pure, M.pure, op_gt, m_assert, h]



end Orx.GenThms
