import Orx.GenThms.Basic
import Orx.Generated.ArithVec
namespace Orx.GenThms
open Orx Orx.RS Orx.Gen Orx.KS

/-! ## vec -/

def vec (len : Nat) : VecSelf := ⟨⟨len⟩, len, {}⟩

theorem vec_initial_len (len : Nat) (s : St) : Vec.initial_len (vec len) s = .ok len s := rfl

theorem vec_progress (len n c : Nat) (evs dr) :
    Vec.progress_and_get_begin_idx (vec len) n (st c evs dr) =
      .ok (if c < len then some c else none) (st (wrapAdd c n) (evs ++ [faa c n]) dr) := by
  simp only [Vec.progress_and_get_begin_idx, Vec.counter, Vec.initial_len, Counter.fetch_and_add, vec, st, faa,
    bind, M.bind, pure, M.pure, m_fetch_add, St.get_ctr, St.set_ctr, m_cmp]
  by_cases h1 : c < len
  · simp [h1, M.pure]
  · by_cases h2 : c = len <;> simp [h1, h2, M.pure]

/-- `take_slice(b, n)` for a begin index inside the vector: no fault (the subtraction does not underflow, the pointer
stays in the allocation, `Taken::new` gets a valid span), and the span is `[b, min(b + n, len))` -/
theorem vec_take_slice (len b n : Nat) (hb : b ≤ len) (hl : len < W) (s : St) :
    Vec.take_slice (vec len) b n s = .ok ⟨b, min (satAdd b n) len⟩ s := by
  have h1 : b ≤ min (satAdd b n) len := by unfold satAdd MAXW; unfold W at hl; split <;> omega
  have h2 : b + (min (satAdd b n) len - b) ≤ len := by omega
  have h3 : b + (min (satAdd b n) len - b) = min (satAdd b n) len := by omega
  have h4 : min (satAdd b n) len ≤ len := by omega
  simp [h4, Vec.take_slice, vec, bind, M.bind, pure, M.pure, m_saturating_add, m_len, MLen.m_len, m_min, op_sub,
    m_as_mut_ptr, MAsMutPtr.m_as_mut_ptr, m_add, Taken_new, h1, hb, h2, h3]

theorem vec_fetch_n (len n c : Nat) (evs dr) (hl : len < W) :
    Vec.fetch_n (vec len) n (st c evs dr) =
      .ok (chunkOf (pullRange len c n)) (st (wrapAdd c n) (evs ++ [faa c n]) dr) := by
  simp only [Vec.fetch_n, vec_progress, vec_initial_len, bind, M.bind, pure, M.pure,
    m_unwrap_or, m_saturating_add, m_min, m_max, m_cmp, chunkOf, pullRange]
  by_cases h1 : c < len
  · have hb := endIdx_bounds c n len (by omega)
    simp only [h1, ↓reduceIte, Option.getD_some]
    by_cases hs : c = max (min (satAdd c n) len) c
    · have : ¬ c < max (min (satAdd c n) len) c := by omega
      simp [← hs, M.pure]
    · have hlt : c < max (min (satAdd c n) len) c := by omega
      have hm : max (min (satAdd c n) len) c = min (satAdd c n) len := by omega
      have hlt' : c < min (satAdd c n) len := by omega
      have hs' : ¬ c = min (satAdd c n) len := by omega
      simp [hm, hlt', hs', M.pure, M.bind, vec_take_slice len c n (by omega) hl]
  · have hm : max (min (satAdd len n) len) len = len := by omega
    simp [h1, hm, M.pure]

theorem vec_fetch_one (len c : Nat) (evs dr) :
    Vec.fetch_one (vec len) (st c evs dr) =
      .ok (if c < len then some ⟨c, c⟩ else none) (st (wrapAdd c 1) (evs ++ [faa c 1]) dr) := by
  simp only [Vec.fetch_one, Vec.counter, Vec.get, Counter.fetch_and_increment, vec, st, faa,
    bind, M.bind, pure, M.pure, m_fetch_add, St.get_ctr, St.set_ctr, m_cmp, m_take_one, MTakeOne.m_take_one, m_map, MMap.m_map]
  by_cases h1 : c < len
  · simp [h1, M.pure, M.bind]
  · by_cases h2 : c = len <;> simp [h1, h2, M.pure, M.bind]

/-- `early_exit` of a consumed vector: one `swap(len)`, and exactly the span `[min(c, len), len)` is destroyed in place -/
theorem vec_early_exit (len c : Nat) (evs dr) :
    Vec.early_exit (vec len) (st c evs dr) =
      .ok () (st len (evs ++ [.swp (.ctr 0) .acqrel c len]) (dr ++ [(min c len, len)])) := by
  have h1 : min c len ≤ len := by omega
  have h2 : min c len + (len - min c len) = len := by omega
  simp [Vec.early_exit, Vec.counter, Counter.swap, vec, st, bind, M.bind, pure, M.pure, m_swap, St.get_ctr, St.set_ctr, m_min, op_sub,
    m_as_mut_ptr, MAsMutPtr.m_as_mut_ptr, m_add, ptr_slice_from_raw_parts_mut, ptr_drop_in_place, h1, h2]

theorem vec_try_get_len (len c : Nat) (evs dr) :
    Vec.try_get_len (vec len) (st c evs dr) =
      .ok (some (lenOf len c)) (st c (evs ++ [.ld (.ctr 0) .acquire c]) dr) := by
  simp only [Vec.try_get_len, Vec.counter, Vec.initial_len, Counter.current, vec, st, lenOf,
    bind, M.bind, pure, M.pure, m_load, MLoad.m_load, St.get_ctr, m_cmp, op_sub]
  by_cases h1 : c < len
  · have : c ≤ len := by omega
    simp [h1, this, M.pure, M.bind]
  · by_cases h2 : c = len <;> simp [h1, h2, M.pure, M.bind]

theorem vec_buffered_next (len n c : Nat) (evs dr) (hl : len < W) :
    BufferedIterVec.next ⟨⟨n⟩, vec len⟩ (st c evs dr) =
      .ok (bufChunk len c n) (st (wrapAdd c n) (evs ++ [faa c n]) dr) := by
  simp only [BufferedIterVec.next, BufVec.chunk_size, vec_progress, bind, M.bind, pure, M.pure, m_and_then, bufChunk, pullRange]
  by_cases h1 : c < len
  · have hb := endIdx_bounds c n len (by omega)
    have hm : max (min (satAdd c n) len) c = min (satAdd c n) len := by
      have : c ≤ min (satAdd c n) len := by unfold satAdd MAXW; unfold W at hl; split <;> omega
      omega
    simp [h1, BufVec.pull, bind, M.bind, pure, M.pure, m_map, MMap.m_map, vec_take_slice len c n (by omega) hl, hm]
  · simp [h1, M.pure]

theorem vec_next_chunk (len n : Nat) : Vec.next_chunk (vec len) n = Vec.fetch_n (vec len) n := rfl
theorem vec_next_id_and_value (len : Nat) : Vec.next_id_and_value (vec len) = Vec.fetch_one (vec len) := rfl
theorem vec_skip_to_end (len : Nat) : Vec.skip_to_end (vec len) = Vec.early_exit (vec len) := rfl

end Orx.GenThms
