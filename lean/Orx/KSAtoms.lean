import Orx.KS
/-! # Known-size kinds: the counter as a sequential cursor (arithmetic lemmas)

Because every operation of a known-size kind is one atomic access (F-A), every concurrent history is a
*sequence* of `Atom`s applied to the counter. All statements here quantify over arbitrary sequences. -/
namespace Orx.KS

/-- the abstract cursor position behind a counter value -/
def pos (len c : Nat) : Nat := min c len

def Atom.size : Atom → Nat
  | .one => 1
  | .many n => n
  | _ => 0

/-- no counter update of the history wraps around `2^64` -/
def NoWrap (len : Nat) : List Atom → Nat → Prop
  | [], _ => True
  | a :: as, c => c + a.size < W ∧ NoWrap len as (a.next len c)

instance NoWrap.dec (len : Nat) : (as : List Atom) → (c : Nat) → Decidable (NoWrap len as c)
  | [], _ => isTrue trivial
  | a :: as, c =>
    have := NoWrap.dec len as (a.next len c)
    inferInstanceAs (Decidable (c + a.size < W ∧ NoWrap len as (a.next len c)))

/-- counter after a history -/
def runAtoms (len : Nat) : List Atom → Nat → Nat
  | [], c => c
  | a :: as, c => runAtoms len as (a.next len c)

/-- positions delivered by a history, in delivery (= linearization) order -/
def delivered (len : Nat) : List Atom → Nat → List Nat
  | [], _ => []
  | a :: as, c => rangeList (a.range len c).1 (a.range len c).2 ++ delivered len as (a.next len c)

theorem satAdd_eq {a b : Nat} (h : a + b < W) : satAdd a b = a + b := by simp [satAdd, h]

theorem satAdd_ge (a b : Nat) (ha : a < W) : a ≤ satAdd a b := by
  unfold satAdd; split
  · omega
  · simp only [MAXW, W] at *; omega

theorem wrapAdd_eq {a b : Nat} (h : a + b < W) : wrapAdd a b = a + b := by simp [wrapAdd, Nat.mod_eq_of_lt h]

/-- One atom, no wrap: it delivers exactly `[pos c, pos (next c))` -- the cursor interval. -/
theorem range_eq_pos (len c : Nat) (a : Atom) (ha : a ≠ .skip) (h : c + a.size < W) :
    a.range len c = (pos len c, pos len (a.next len c)) := by
  cases a with
  | one =>
    simp only [Atom.range, Atom.next, pos, Atom.size] at *
    rw [wrapAdd_eq h]
    split <;> (simp only [Prod.mk.injEq]; omega)
  | many n =>
    simp only [Atom.range, Atom.next, pos, Atom.size, pullRange] at *
    rw [wrapAdd_eq h]
    split
    · rw [satAdd_eq h]; simp only [Prod.mk.injEq]; omega
    · have : len + n < W ∨ ¬ (len + n < W) := by omega
      rcases this with h2 | h2
      · rw [satAdd_eq h2]; simp only [Prod.mk.injEq]; omega
      · simp only [satAdd, MAXW, W, Prod.mk.injEq] at *; omega
  | skip => exact absurd rfl ha
  | query => simp [Atom.range, Atom.next, pos]

/-- the cursor never moves backwards and never passes the end -/
theorem pos_mono (len c : Nat) (a : Atom) (h : c + a.size < W) : pos len c ≤ pos len (a.next len c) ∧ pos len (a.next len c) ≤ len := by
  cases a <;> simp only [Atom.next, pos, Atom.size] at * <;> (try rw [wrapAdd_eq h]) <;> omega

theorem rangeList_append (a b c : Nat) (h1 : a ≤ b) (h2 : b ≤ c) : rangeList a b ++ rangeList b c = rangeList a c := by
  unfold rangeList
  apply List.ext_getElem
  · simp; omega
  · intro i h1' h2'
    simp only [List.length_append, List.length_map, List.length_range] at h1'
    by_cases hi : i < b - a
    · rw [List.getElem_append_left (by simpa using hi)]; simp
    · rw [List.getElem_append_right (by simpa using hi)]; simp; omega

theorem rangeList_self (a : Nat) : rangeList a a = [] := by simp [rangeList]

def NoSkip (as : List Atom) : Prop := ∀ a ∈ as, a ≠ Atom.skip

/-- **Cursor theorem.** For every history without skip whose counter does not wrap, the delivered
positions are exactly the gap-free, ordered interval from the start position to the final position. -/
theorem delivered_eq (len : Nat) (as : List Atom) (c : Nat) (hns : NoSkip as) (hw : NoWrap len as c) :
    delivered len as c = rangeList (pos len c) (pos len (runAtoms len as c)) ∧ pos len c ≤ pos len (runAtoms len as c) := by
  induction as generalizing c with
  | nil => simp [delivered, runAtoms, rangeList_self]
  | cons a as ih =>
    have ha : a ≠ .skip := hns a (by simp)
    have hns' : NoSkip as := fun x hx => hns x (by simp [hx])
    obtain ⟨h1, h2⟩ := hw
    have ih' := ih (a.next len c) hns' h2
    have hm := pos_mono len c a h1
    simp only [delivered, runAtoms]
    rw [range_eq_pos len c a ha h1, ih'.1]
    exact ⟨rangeList_append _ _ _ hm.1 ih'.2, Nat.le_trans hm.1 ih'.2⟩

theorem rangeList_zero (k : Nat) : rangeList 0 k = List.range k := by
  simp [rangeList]

/-- C01/C04 for the known-size kinds, from a fresh iterator: delivered = `[0, min(counter, len))`, in order. -/
theorem delivered_fresh (len : Nat) (as : List Atom) (hns : NoSkip as) (hw : NoWrap len as 0) :
    delivered len as 0 = List.range (pos len (runAtoms len as 0)) := by
  have := (delivered_eq len as 0 hns hw).1
  simpa [pos, rangeList_zero] using this

/-- the end is a fixpoint of the cursor: once `pos = len`, it stays there and nothing more is delivered (C05) -/
theorem end_permanent (len : Nat) (as : List Atom) (c : Nat) (hc : len ≤ c) (hw : NoWrap len as c) :
    delivered len as c = [] ∧ len ≤ runAtoms len as c := by
  induction as generalizing c with
  | nil => simp [delivered, runAtoms, hc]
  | cons a as ih =>
    obtain ⟨h1, h2⟩ := hw
    have hnext : len ≤ a.next len c := by
      cases a <;> simp only [Atom.next, Atom.size] at * <;> (try rw [wrapAdd_eq h1]) <;> omega
    have hr : rangeList (a.range len c).1 (a.range len c).2 = [] := by
      cases a with
      | one => simp [Atom.range, show ¬ c < len by omega, rangeList_self]
      | many n =>
        simp only [Atom.range, pullRange, show ¬ c < len by omega, ↓reduceIte]
        have : max (min (satAdd len n) len) len = len := by omega
        rw [this, rangeList_self]
      | skip => simp [Atom.range, rangeList_self]
      | query => simp [Atom.range, rangeList_self]
    simp only [delivered, runAtoms, hr, List.nil_append]
    exact ih _ hnext h2

/-- after `skip_to_end` nothing is delivered any more, whatever follows (C06) -/
theorem skip_final (len : Nat) (as : List Atom) (c : Nat) (hw : NoWrap len as (Atom.skip.next len c)) :
    delivered len as (Atom.skip.next len c) = [] :=
  (end_permanent len as len (Nat.le_refl _) hw).1

/-- `try_get_len` is the number of positions later pulls can deliver (C11) -/
theorem lenOf_eq (len c : Nat) : lenOf len c = len - pos len c := by
  unfold lenOf pos; split <;> omega

theorem delivered_length (len : Nat) (as : List Atom) (c : Nat) (hns : NoSkip as) (hw : NoWrap len as c) :
    (delivered len as c).length = pos len (runAtoms len as c) - pos len c := by
  rw [(delivered_eq len as c hns hw).1]; simp [rangeList]

/-- what remains after any history is at most what `try_get_len` said before it, and everything if drained (C11) -/
theorem len_truthful (len : Nat) (as : List Atom) (c : Nat) (hns : NoSkip as) (hw : NoWrap len as c) :
    (delivered len as c).length ≤ lenOf len c ∧
    (len ≤ runAtoms len as c → (delivered len as c).length = lenOf len c) := by
  rw [delivered_length len as c hns hw, lenOf_eq]
  have := (delivered_eq len as c hns hw).2
  refine ⟨by unfold pos at *; omega, fun h => by unfold pos at *; omega⟩

/-- reported lengths never increase along a history (C11) -/
theorem lenOf_mono (len c : Nat) (a : Atom) (h : c + a.size < W) : lenOf len (a.next len c) ≤ lenOf len c := by
  rw [lenOf_eq, lenOf_eq]
  have := pos_mono len c a h
  omega

/-- a chunk pull of size 0 leaves the counter and the cursor unchanged and delivers nothing (C16) -/
theorem chunk_zero_noop (len c : Nat) (hc : c < W) :
    (Atom.many 0).next len c = c ∧ rangeList ((Atom.many 0).range len c).1 ((Atom.many 0).range len c).2 = [] := by
  refine ⟨by simp [Atom.next, wrapAdd, Nat.mod_eq_of_lt hc], ?_⟩
  simp only [Atom.range, pullRange]
  split
  · have : satAdd c 0 = c := by simp [satAdd, hc]
    rw [this]
    have : max (min c len) c = c := by omega
    rw [this, rangeList_self]
  · have : max (min (satAdd len 0) len) len = len := by omega
    rw [this, rangeList_self]

end Orx.KS
