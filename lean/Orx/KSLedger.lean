import Orx.KSRun
/-! # Known-size consuming kinds (vec, array): the ownership ledger

`Cfg.mv` records the positions moved out to callers, `Cfg.dr` the positions destroyed by the machinery
(an unconsumed chunk rest, the elements `Iterator::nth` discards, `skip_to_end`, a panicking closure's chunk).
This file proves, for every schedule, that the two together are exactly what the history of atomic accesses
*consumed* — and, with the cursor arithmetic, that after `Drop` / `into_seq_iter` every position `0..len`
was moved out or destroyed exactly once. -/
namespace Orx.KS

/-- positions a `skip_to_end` on a consuming kind destroys: from the (clamped) counter value the swap returned -/
def Atom.destroys (len c : Nat) : Atom → List Nat
  | .skip => rangeList (pos len c) len
  | _ => []

/-- positions an atomic access takes out of the storage (handed out, or destroyed by the skip) -/
def Atom.gain (len c : Nat) (a : Atom) : List Nat :=
  rangeList (a.range len c).1 (a.range len c).2 ++ a.destroys len c

/-- everything a history takes out of the storage, in order -/
def consumed (len : Nat) : List Atom → Nat → List Nat
  | [], _ => []
  | a :: as, c => a.gain len c ++ consumed len as (a.next len c)

theorem consumed_append (len : Nat) (as : List Atom) (a : Atom) (c : Nat) :
    consumed len (as ++ [a]) c = consumed len as c ++ a.gain len (runAtoms len as c) := by
  induction as generalizing c with
  | nil => simp [consumed, runAtoms]
  | cons b bs ih => simp [consumed, runAtoms, ih]

/-- **Partition at the atom level, skips included.** For every history whose counter does not wrap: what the
history took out of the storage, followed by what is left from the final cursor position on, is exactly the
interval from the start position to the end — each position once, in order. -/
theorem consumed_partition (len : Nat) (as : List Atom) (c : Nat) (hw : NoWrap len as c) :
    consumed len as c ++ rangeList (pos len (runAtoms len as c)) len = rangeList (pos len c) len := by
  induction as generalizing c with
  | nil => simp [consumed, runAtoms]
  | cons a as ih =>
    obtain ⟨h1, h2⟩ := hw
    have ih' := ih (a.next len c) h2
    simp only [consumed, runAtoms, List.append_assoc, ih']
    by_cases ha : a = .skip
    · subst ha
      simp [Atom.gain, Atom.range, Atom.destroys, Atom.next, pos, rangeList_self]
    · have hm := pos_mono len c a h1
      have hd : a.destroys len c = [] := by cases a <;> simp_all [Atom.destroys]
      simp only [Atom.gain, hd, List.append_nil, range_eq_pos len c a ha h1]
      exact rangeList_append _ _ _ hm.1 hm.2

theorem rangeList_one (c : Nat) : rangeList c (c + 1) = [c] := by simp [rangeList]

theorem rangeList_split3 (b sk j e : Nat) (h1 : sk ≤ j) (h2 : b + j ≤ e) :
    rangeList b (b + sk) ++ rangeList (b + sk) (b + j) ++ rangeList (b + j) e = rangeList b e := by
  rw [rangeList_append b _ _ (by omega) (by omega)]
  exact rangeList_append b _ e (by omega) h2

def NoGetOp (o : SOp) : Prop := ∀ i, o.op ≠ .get i

/-- what the access of the next step (if it has one) takes out of the storage -/
def gainOf (len : Nat) (ctr : Nat → Nat) : Option (Nat × Atom) → List Nat
  | none => []
  | some (k, a) => a.gain len (ctr k)

theorem count_split3 (p b sk j e : Nat) (h1 : sk ≤ j) (h2 : b + j ≤ e) :
    (rangeList b (b + sk)).count p + (rangeList (b + sk) (b + j)).count p + (rangeList (b + j) e).count p
      = (rangeList b e).count p := by
  rw [← rangeList_split3 b sk j e h1 h2]; simp [List.count_append, Nat.add_assoc]

theorem pullRange_fst_le (len c n : Nat) : (pullRange len c n).1 ≤ (pullRange len c n).2 := by
  simp only [pullRange]; omega

/-- count form of the ledger of a configuration -/
def led (c : Cfg) (p : Nat) : Nat := c.mv.count p + c.dr.count p

@[simp] theorem setTh_mv (c : Cfg) (t : Nat) (x : Thread) : (setTh c t x).mv = c.mv := rfl
@[simp] theorem setTh_dr (c : Cfg) (t : Nat) (x : Thread) : (setTh c t x).dr = c.dr := rfl

theorem led_setTh (c : Cfg) (t : Nat) (x : Thread) (p : Nat) : led (setTh c t x) p = led c p := rfl

/-- **One step, consuming kinds.** Whatever branch a step takes (single pull, chunk with any consumption mode,
buffered pull, loop iteration with or without a panicking closure, skip, queries, calls), the positions it adds to
"moved out" and "destroyed" are together exactly the positions its atomic access took out of the storage. -/
theorem stepRest_led (s : KSrc) (hown : s.owning = true) (t : Nat) (c0 c : Cfg)
    (hg : ∀ o ∈ (c0.th t).todo, NoGetOp o) (p : Nat) :
    led (stepRest s t c0 c).1 p = led c p + (gainOf s.len c0.ctr (stepAtom (c0.th t))).count p := by
  cases hpc : (c0.th t).pc with
  | dead => simp [stepRest, stepAtom, hpc, gainOf]
  | idle =>
    cases htd : (c0.th t).todo with
    | nil => simp [stepRest, stepAtom, hpc, htd, gainOf]
    | cons o rest =>
      have ho : NoGetOp o := hg o (by simp [htd])
      cases hop : o.op with
      | get i => exact absurd hop (ho i)
      | bufnew n =>
        simp only [stepRest, stepAtom, hpc, htd, hop, gainOf]
        split <;> simp [led_setTh]
      | bufnext k =>
        simp only [stepRest, stepAtom, hpc, htd, hop, gainOf]
        split <;> simp [led_setTh]
      | bufdrop => simp [stepRest, stepAtom, hpc, htd, hop, gainOf, led_setTh]
      | _ =>
        simp only [stepRest, stepAtom, hpc, htd, hop, gainOf, loopParams]
        (try split) <;> simp [led_setTh]
  | atom o =>
    cases hop : o.op with
    | next =>
      simp only [stepRest, stepAtom, hpc, hop, gainOf, Atom.gain, Atom.range, Atom.destroys, hown, ↓reduceIte]
      split <;> simp [led, List.count_append, rangeList_one, rangeList_self] <;> omega
    | nextv =>
      simp only [stepRest, stepAtom, hpc, hop, gainOf, Atom.gain, Atom.range, Atom.destroys, hown, ↓reduceIte]
      split <;> simp [led, List.count_append, rangeList_one, rangeList_self] <;> omega
    | chunk n kk =>
      simp only [stepRest, stepAtom, hpc, hop, gainOf, Atom.gain, Atom.range, Atom.destroys, hown, ↓reduceIte]
      have hle := pullRange_fst_le s.len (c0.ctr o.slot) n
      split
      · rename_i hbe
        simp [led, hbe, rangeList_self]
      · have h3 := count_split3 p (pullRange s.len (c0.ctr o.slot) n).1
          (kk.skipped ((pullRange s.len (c0.ctr o.slot) n).2 - (pullRange s.len (c0.ctr o.slot) n).1))
          (takeCount kk ((pullRange s.len (c0.ctr o.slot) n).2 - (pullRange s.len (c0.ctr o.slot) n).1))
          (pullRange s.len (c0.ctr o.slot) n).2 (Take.skipped_le_count _ _)
          (by have := Take.count_le kk ((pullRange s.len (c0.ctr o.slot) n).2 - (pullRange s.len (c0.ctr o.slot) n).1)
              unfold takeCount; omega)
        simp [led, List.count_append]
        omega
    | skip =>
      simp only [stepRest, stepAtom, hpc, hop, gainOf, Atom.gain, Atom.range, Atom.destroys, hown, ↓reduceIte]
      simp [led, List.count_append, rangeList_self, pos]
      omega
    | len => simp [stepRest, stepAtom, hpc, hop, gainOf, Atom.gain, Atom.range, Atom.destroys, led, rangeList_self]
    | hasmore => simp [stepRest, stepAtom, hpc, hop, gainOf, Atom.gain, Atom.range, Atom.destroys, led, rangeList_self]
    | clone j => simp [stepRest, stepAtom, hpc, hop, gainOf, Atom.gain, Atom.range, Atom.destroys, led, rangeList_self, setCtr]
    | bufnext kk =>
      cases hb : (c0.th t).buf with
      | none => simp [stepRest, stepAtom, hpc, hop, hb, gainOf, led]
      | some bn =>
        obtain ⟨bk, n⟩ := bn
        simp only [stepRest, stepAtom, hpc, hop, hb, gainOf, Atom.gain, Atom.range, Atom.destroys, hown, ↓reduceIte]
        have hle := pullRange_fst_le s.len (c0.ctr bk) n
        split
        · have h3 := count_split3 p (pullRange s.len (c0.ctr bk) n).1
            (kk.skipped ((pullRange s.len (c0.ctr bk) n).2 - (pullRange s.len (c0.ctr bk) n).1))
            (takeCount kk ((pullRange s.len (c0.ctr bk) n).2 - (pullRange s.len (c0.ctr bk) n).1))
            (pullRange s.len (c0.ctr bk) n).2 (Take.skipped_le_count _ _)
            (by have := Take.count_le kk ((pullRange s.len (c0.ctr bk) n).2 - (pullRange s.len (c0.ctr bk) n).1)
                unfold takeCount; omega)
          simp [led, List.count_append]
          omega
        · rename_i hge
          have : (pullRange s.len (c0.ctr bk) n).1 = (pullRange s.len (c0.ctr bk) n).2 := by
            simp only [pullRange, hge, ↓reduceIte]; omega
          simp [led, this, rangeList_self]
    | _ => simp [stepRest, stepAtom, hpc, hop, gainOf, led]
  | loop o v sm =>
    cases hlp : loopParams o.op with
    | none => simp [stepRest, stepAtom, hpc, hlp, gainOf, led]
    | some q =>
      obtain ⟨n, withIdx, panicAt, isFold⟩ := q
      simp only [stepRest, stepAtom, hpc, hlp, gainOf, hown, ↓reduceIte]
      split
      · rename_i hlt
        split
        · by_cases hn : n = 1 <;>
            simp [led, hn, hlt, Atom.gain, Atom.range, Atom.destroys, List.count_append] <;> omega
        · rename_i restLen _
          have htd : ∀ (l : List Nat) (k : Nat), (l.take k).count p + (l.drop k).count p = l.count p := by
            intro l k
            rw [← List.count_append, List.take_append_drop]
          by_cases hn : n = 1
          · have := htd (rangeList (c0.ctr o.slot) (c0.ctr o.slot + 1)) ((rangeList (c0.ctr o.slot) (c0.ctr o.slot + 1)).length - restLen)
            simp [led, hn, hlt, Atom.gain, Atom.range, Atom.destroys, List.count_append] at this ⊢
            omega
          · have := htd (rangeList (pullRange s.len (c0.ctr o.slot) n).1 (pullRange s.len (c0.ctr o.slot) n).2)
              ((rangeList (pullRange s.len (c0.ctr o.slot) n).1 (pullRange s.len (c0.ctr o.slot) n).2).length - restLen)
            simp [led, hn, hlt, Atom.gain, Atom.range, Atom.destroys, List.count_append] at this ⊢
            omega
      · rename_i hge
        by_cases hn : n = 1
        · simp [led, hn, hge, Atom.gain, Atom.range, Atom.destroys, rangeList_self]
        · have : (pullRange s.len (c0.ctr o.slot) n).1 = (pullRange s.len (c0.ctr o.slot) n).2 := by
            simp only [pullRange, hge, ↓reduceIte]; omega
          simp [led, hn, Atom.gain, Atom.range, Atom.destroys, this, rangeList_self]

end Orx.KS

namespace Orx.KS

/-- every operation a thread will execute addresses slot 0 (the only iterator of a consuming kind: it cannot be
cloned) and none is `AtomicIter::get` (finding D12) -/
def S0T (x : Thread) : Prop :=
  (∀ o ∈ x.todo, o.slot = 0 ∧ NoGetOp o) ∧
  (match x.pc with
    | .atom o => o.slot = 0
    | .loop o _ _ => o.slot = 0
    | _ => True) ∧
  (match x.buf with
    | some (bk, _) => bk = 0
    | none => True)

def S0 (c : Cfg) : Prop := ∀ t, S0T (c.th t)

theorem stepAtom_slot0 {x : Thread} (h : S0T x) (k : Nat) (a : Atom) (hs : stepAtom x = some (k, a)) : k = 0 := by
  obtain ⟨_, hpcx, hbx⟩ := h
  unfold stepAtom at hs
  split at hs
  · rename_i o hpc
    simp only [hpc] at hpcx
    split at hs <;> (try simp at hs) <;> (try (obtain ⟨rfl, _⟩ := hs; exact hpcx))
    · split at hs
      · rename_i bk n hb
        simp only [hb] at hbx
        simp at hs
        obtain ⟨rfl, _⟩ := hs
        exact hbx
      · simp at hs
  · rename_i o v sm hpc
    simp only [hpc] at hpcx
    split at hs
    · simp at hs; obtain ⟨rfl, _⟩ := hs; exact hpcx
    · simp at hs
  · simp at hs

theorem stepRest_S0T (s : KSrc) (t : Nat) (c0 c : Cfg) (hth : c.th = c0.th) (h : S0T (c0.th t)) :
    S0T ((stepRest s t c0 c).1.th t) := by
  obtain ⟨htodo, hpcx, hbx⟩ := h
  cases hpc : (c0.th t).pc with
  | dead =>
    simp only [stepRest, hpc, hth]
    exact ⟨htodo, by simp [hpc], hbx⟩
  | idle =>
    cases htd : (c0.th t).todo with
    | nil =>
      simp only [stepRest, hpc, htd, hth]
      exact ⟨by simp [htd], by simp [hpc], hbx⟩
    | cons o rest =>
      have ho := (htodo o (by simp [htd])).1
      have hr : ∀ o' ∈ rest, o'.slot = 0 ∧ NoGetOp o' := fun o' h' => htodo o' (by simp [htd, h'])
      cases hop : o.op <;> simp only [stepRest, hpc, htd, hop, loopParams] <;>
        (try split) <;> (try split) <;> simp [setTh, S0T, ho] <;>
          (first | done | exact ⟨hr, hbx⟩ | exact hbx | exact hr)
  | atom o =>
    simp only [hpc] at hpcx
    cases hop : o.op <;> simp only [stepRest, hpc, hop] <;>
      (try split) <;> (try split) <;> simp [setTh, setCtr, S0T] <;>
        (first | done | exact ⟨htodo, hbx⟩ | exact hbx | exact htodo)
  | loop o v sm =>
    simp only [hpc] at hpcx
    cases hlp : loopParams o.op with
    | none =>
      simp only [stepRest, hpc, hlp]
      simp [setTh, S0T]
      exact ⟨htodo, hbx⟩
    | some q =>
      obtain ⟨n, withIdx, panicAt, isFold⟩ := q
      simp only [stepRest, hpc, hlp]
      split
      · split <;> simp [setTh, S0T, hpcx] <;> exact ⟨htodo, hbx⟩
      · simp [setTh, S0T]
        exact ⟨htodo, hbx⟩

end Orx.KS

namespace Orx.KS

theorem step_S0 (s : KSrc) (t : Nat) {c : Cfg} (h : S0 c) : S0 (step s t c).1 := by
  intro u
  have key : ∀ c1 : Cfg, c1.th = c.th → S0T ((stepRest s t c c1).1.th u) := by
    intro c1 hth
    by_cases hu : u = t
    · subst hu; exact stepRest_S0T s u c c1 hth (h u)
    · rw [stepRest_th_other s t u c c1 hu, hth]; exact h u
  unfold step
  split
  · exact key _ (applyAtom_th _ _ _ _ _)
  · exact key c rfl

/-- the ledger invariant: moved out + destroyed = what the history of slot 0 consumed (as multisets) -/
def Led (s : KSrc) (c : Cfg) : Prop := ∀ p, led c p = (consumed s.len (atomsOf c.hist 0) 0).count p

theorem step_led (s : KSrc) (hown : s.owning = true) (t : Nat) {c : Cfg}
    (hh : HistOk s.len c) (h0 : S0 c) (hl : Led s c) : Led s (step s t c).1 := by
  intro p
  have hg : ∀ o ∈ (c.th t).todo, NoGetOp o := fun o ho => ((h0 t).1 o ho).2
  unfold step
  cases hs : stepAtom (c.th t) with
  | none =>
    simp only []
    rw [stepRest_led s hown t c c hg p, stepRest_hist, hs]
    simpa [gainOf] using hl p
  | some ka =>
    obtain ⟨k, a⟩ := ka
    have hk := stepAtom_slot0 (h0 t) k a hs
    subst hk
    simp only []
    rw [stepRest_led s hown t c _ hg p, stepRest_hist, hs]
    have h1 : atomsOf (c.hist ++ [(t, 0, a, c.ctr 0)]) 0 = atomsOf c.hist 0 ++ [a] := by
      simp [atomsOf, List.filter_append]
    have h2 : led (applyAtom s.len c t 0 a) p = led c p := rfl
    have h3 : (applyAtom s.len c t 0 a).hist = c.hist ++ [(t, 0, a, c.ctr 0)] := rfl
    rw [h2, h3, h1, consumed_append, ← hh.ctr 0, List.count_append, ← hl p]
    simp [gainOf]

theorem run_led (s : KSrc) (hown : s.owning = true) (σ : List Nat) {c : Cfg}
    (hh : HistOk s.len c) (hnc : NC c) (h0 : S0 c) (hl : Led s c) :
    Led s (run s σ c) ∧ HistOk s.len (run s σ c) := by
  induction σ generalizing c with
  | nil => exact ⟨hl, hh⟩
  | cons t ts ih =>
    have hk := step_ok s t hh hnc
    exact ih hk.1 hk.2 (step_S0 s t h0) (step_led s hown t hh h0 hl)

/-- a program of a consuming kind: every operation on slot 0, no `clone` (not offered), no `AtomicIter::get` -/
def OwnProg (o : SOp) : Prop := o.slot = 0 ∧ NoGetOp o ∧ NoCloneOp o

theorem init_led (s : KSrc) (progs : Nat → List SOp) (hp : ∀ t, ∀ o ∈ progs t, OwnProg o) :
    S0 (init s progs) ∧ Led s (init s progs) := by
  refine ⟨fun t => ⟨fun o ho => ⟨(hp t o (by simpa [init] using ho)).1, (hp t o (by simpa [init] using ho)).2.1⟩,
    by simp [init], by simp [init]⟩, fun p => by simp [Led, led, init, atomsOf, consumed]⟩

/-- **Ownership ledger, every schedule (vec, array).** For every consuming known-size source, every family of
per-thread programs (single pulls, chunks consumed in any way including `nth`, buffered pulls, loops with panicking
closures, `skip_to_end`, queries) and every interleaving, as long as the counter does not wrap: the positions moved
out to callers and the positions destroyed by the machinery are, as a multiset, exactly what the atomic history
consumed … -/
theorem ledger_all_schedules (s : KSrc) (hown : s.owning = true) (progs : Nat → List SOp)
    (hp : ∀ t, ∀ o ∈ progs t, OwnProg o) (σ : List Nat) (p : Nat) :
    let c := run s σ (init s progs)
    (c.mv ++ c.dr).count p = (consumed s.len (atomsOf c.hist 0) 0).count p := by
  intro c
  have hi := init_ok s progs (fun t o ho => (hp t o ho).2.2)
  have hl := init_led s progs hp
  have := (run_led s hown σ hi.1 hi.2 hl.1 hl.2).1 p
  simpa [led, List.count_append] using this

theorem exactly_once_of (s : KSrc) (hown : s.owning = true) (c : Cfg) (as : List Atom)
    (hled : ∀ p, led c p = (consumed s.len as 0).count p) (hctr : c.ctr 0 = runAtoms s.len as 0)
    (hw : NoWrap s.len as 0) (op : OwnerOp) (p : Nat) :
    ((owner s c op).1.mv ++ (owner s c op).1.dr).count p = if p < s.len then 1 else 0 := by
  have hled := hled p
  have hpart := consumed_partition s.len as 0 hw
  have hcount : (consumed s.len as 0).count p + (rangeList (min (c.ctr 0) s.len) s.len).count p
      = if p < s.len then 1 else 0 := by
    rw [← List.count_append, hctr]
    have : pos s.len (runAtoms s.len as 0) = min (runAtoms s.len as 0) s.len := rfl
    rw [← this, hpart]
    simp [pos, rangeList_zero, List.count_range]
  have htd : ∀ (l : List Nat) (k : Nat), (l.take k).count p + (l.drop k).count p = l.count p := by
    intro l k
    rw [← List.count_append, List.take_append_drop]
  unfold led at hled
  cases op with
  | drop =>
    unfold owner
    cases hk : s.kind <;> simp [KSrc.owning, hk] at hown <;>
      (simp only [List.count_append] at hcount ⊢; omega)
  | intoseq kk =>
    have := htd (rangeList (min (c.ctr 0) s.len) s.len) (takeCountO kk (rangeList (min (c.ctr 0) s.len) s.len).length)
    unfold owner
    simp only [hown, ↓reduceIte, List.count_append] at hcount ⊢
    omega

/-- … and therefore, after the owner's `Drop` or `into_seq_iter` (consumed to any extent), **every position
`0..len` has been moved out or destroyed exactly once, and nothing else has** — never both, never twice, never
neither. -/
theorem exactly_once_all_schedules (s : KSrc) (hown : s.owning = true) (progs : Nat → List SOp)
    (hp : ∀ t, ∀ o ∈ progs t, OwnProg o) (σ : List Nat) (op : OwnerOp) (p : Nat)
    (hw : NoWrap s.len (atomsOf (run s σ (init s progs)).hist 0) 0) :
    ((owner s (run s σ (init s progs)) op).1.mv ++ (owner s (run s σ (init s progs)) op).1.dr).count p
      = if p < s.len then 1 else 0 := by
  have hi := init_ok s progs (fun t o ho => (hp t o ho).2.2)
  have hl := init_led s progs hp
  have hr := run_led s hown σ hi.1 hi.2 hl.1 hl.2
  exact exactly_once_of s hown _ _ hr.1 (hr.2.ctr 0) hw op p

end Orx.KS
