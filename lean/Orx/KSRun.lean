import Orx.KSAtoms
/-! # Known-size kinds: from the thread machine to the cursor theorems

`KS.step` performs its atomic access through `applyAtom` only; the rest of the step never touches the
counters (except `clone`, which initialises another slot), the history or the delivery log. Hence for
every schedule the counter of a slot is the fold of the slot's history, and the cursor theorems apply to
every reachable configuration. -/
namespace Orx.KS

def NoCloneOp (o : SOp) : Prop := ∀ j, o.op ≠ .clone j

theorem stepRest_hist (s : KSrc) (t : Nat) (c0 c : Cfg) : (stepRest s t c0 c).1.hist = c.hist := by
  unfold stepRest
  repeat' (first | split | simp [setTh, setCtr])

theorem stepRest_del (s : KSrc) (t : Nat) (c0 c : Cfg) : (stepRest s t c0 c).1.del = c.del := by
  unfold stepRest
  repeat' (first | split | simp [setTh, setCtr])

end Orx.KS

namespace Orx.KS

/-- the atoms performed on slot `k`, in order -/
def atomsOf (hist : List (Nat × Nat × Atom × Nat)) (k : Nat) : List Atom :=
  (hist.filter fun e => e.2.1 = k).map fun e => e.2.2.1

/-- positions handed out on slot `k`, in order -/
def delOf (del : List (Nat × Nat)) (k : Nat) : List Nat :=
  (del.filter fun e => e.1 = k).map fun e => e.2

theorem runAtoms_append (len : Nat) (as : List Atom) (a : Atom) (c : Nat) :
    runAtoms len (as ++ [a]) c = a.next len (runAtoms len as c) := by
  induction as generalizing c with
  | nil => simp [runAtoms]
  | cons b bs ih => simp [runAtoms, ih]

theorem delivered_append (len : Nat) (as : List Atom) (a : Atom) (c : Nat) :
    delivered len (as ++ [a]) c = delivered len as c ++
      rangeList (a.range len (runAtoms len as c)).1 (a.range len (runAtoms len as c)).2 := by
  induction as generalizing c with
  | nil => simp [delivered, runAtoms]
  | cons b bs ih => simp [delivered, runAtoms, ih]

/-- the counters, the history and the delivery log are consistent: the counter of every slot is the fold of
the slot's atoms from 0, and the log is what those atoms deliver -/
structure HistOk (len : Nat) (c : Cfg) : Prop where
  ctr : ∀ k, c.ctr k = runAtoms len (atomsOf c.hist k) 0
  del : ∀ k, delOf c.del k = delivered len (atomsOf c.hist k) 0

theorem applyAtom_ok {len : Nat} {c : Cfg} (h : HistOk len c) (t k : Nat) (a : Atom) :
    HistOk len (applyAtom len c t k a) := by
  constructor
  · intro j
    by_cases hj : j = k
    · subst hj
      have h1 : atomsOf (c.hist ++ [(t, j, a, c.ctr j)]) j = atomsOf c.hist j ++ [a] := by
        simp [atomsOf, List.filter_append]
      simp only [applyAtom, ↓reduceIte, h1, runAtoms_append, ← h.ctr j]
    · have : atomsOf (c.hist ++ [(t, k, a, c.ctr k)]) j = atomsOf c.hist j := by
        simp [atomsOf, List.filter_append, List.filter_cons, Ne.symm hj]
      simp only [applyAtom, hj, ↓reduceIte, this]
      exact h.ctr j
  · intro j
    by_cases hj : j = k
    · subst hj
      have h1 : atomsOf (c.hist ++ [(t, j, a, c.ctr j)]) j = atomsOf c.hist j ++ [a] := by
        simp [atomsOf, List.filter_append]
      simp only [applyAtom, h1, delivered_append, ← h.ctr j, ← h.del j]
      simp [delOf, List.filter_append, List.filter_map, Function.comp_def]
    · have h1 : atomsOf (c.hist ++ [(t, k, a, c.ctr k)]) j = atomsOf c.hist j := by
        simp [atomsOf, List.filter_append, List.filter_cons, Ne.symm hj]
      simp only [applyAtom, h1, ← h.del j]
      simp [delOf, List.filter_append, List.filter_map, Function.comp_def, Ne.symm hj]

end Orx.KS

namespace Orx.KS

theorem stepRest_ctr (s : KSrc) (t : Nat) (c0 c : Cfg)
    (h : ∀ o, (c0.th t).pc = .atom o → NoCloneOp o) : (stepRest s t c0 c).1.ctr = c.ctr := by
  cases hpc : (c0.th t).pc with
  | atom o =>
    have hnc := h o hpc
    unfold stepRest
    simp only [hpc]
    cases hop : o.op with
    | clone j => exact absurd hop (hnc j)
    | _ => simp only []; repeat' (first | split | simp [setTh, setCtr])
  | _ =>
    unfold stepRest
    simp only [hpc]
    repeat' (first | split | simp [setTh, setCtr])

end Orx.KS

namespace Orx.KS

/-- no thread will ever execute `clone` -/
def NC (c : Cfg) : Prop :=
  ∀ t, (∀ o ∈ (c.th t).todo, NoCloneOp o) ∧ (∀ o, (c.th t).pc = .atom o → NoCloneOp o)

theorem stepRest_th_other (s : KSrc) (t u : Nat) (c0 c : Cfg) (hu : u ≠ t) : (stepRest s t c0 c).1.th u = c.th u := by
  unfold stepRest
  repeat' (first | split | simp [setTh, setCtr, hu])

theorem stepRest_th_self (s : KSrc) (t : Nat) (c0 c : Cfg) (hth : c.th = c0.th)
    (h1 : ∀ o ∈ (c0.th t).todo, NoCloneOp o) (h2 : ∀ o, (c0.th t).pc = .atom o → NoCloneOp o) :
    (∀ o ∈ ((stepRest s t c0 c).1.th t).todo, NoCloneOp o) ∧
    (∀ o, ((stepRest s t c0 c).1.th t).pc = .atom o → NoCloneOp o) := by
  cases hpc : (c0.th t).pc with
  | idle =>
    cases htd : (c0.th t).todo with
    | nil =>
      unfold stepRest
      simp only [hpc, htd, hth]
      exact ⟨by simpa [htd] using h1, by simp [hpc]⟩
    | cons o rest =>
      have ho : NoCloneOp o := h1 o (by simp [htd])
      have hr : ∀ o' ∈ rest, NoCloneOp o' := fun o' h' => h1 o' (by simp [htd, h'])
      unfold stepRest
      simp only [hpc, htd]
      repeat' (first | split | simp [setTh, setCtr] | exact hr | exact ⟨hr, ho⟩ | exact ⟨hr, fun o' h' => h' ▸ ho⟩)
  | atom o =>
    unfold stepRest
    simp only [hpc]
    repeat' (first | split | simp [setTh, setCtr] | exact h1)
  | loop o v sm =>
    unfold stepRest
    simp only [hpc]
    repeat' (first | split | simp [setTh, setCtr] | exact h1)
  | dead =>
    unfold stepRest
    simp only [hpc, hth]
    exact ⟨h1, by simp [hpc]⟩

end Orx.KS

namespace Orx.KS

def run (s : KSrc) : List Nat → Cfg → Cfg
  | [], c => c
  | t :: ts, c => run s ts (step s t c).1

theorem applyAtom_th (len : Nat) (c : Cfg) (t k : Nat) (a : Atom) : (applyAtom len c t k a).th = c.th := rfl

theorem step_ok (s : KSrc) (t : Nat) {c : Cfg} (h : HistOk s.len c) (hnc : NC c) :
    HistOk s.len (step s t c).1 ∧ NC (step s t c).1 := by
  have key : ∀ c1 : Cfg, HistOk s.len c1 → c1.th = c.th →
      HistOk s.len (stepRest s t c c1).1 ∧ NC (stepRest s t c c1).1 := by
    intro c1 h1 hth
    refine ⟨⟨?_, ?_⟩, ?_⟩
    · intro k
      rw [stepRest_ctr s t c c1 (hnc t).2, stepRest_hist]
      exact h1.ctr k
    · intro k
      rw [stepRest_del, stepRest_hist]
      exact h1.del k
    · intro u
      by_cases hu : u = t
      · subst hu
        exact stepRest_th_self s u c c1 hth (hnc u).1 (hnc u).2
      · rw [stepRest_th_other s t u c c1 hu, hth]
        exact hnc u
  unfold step
  split
  · exact key _ (applyAtom_ok h _ _ _) (applyAtom_th _ _ _ _ _)
  · exact key c h rfl

theorem run_ok (s : KSrc) (σ : List Nat) {c : Cfg} (h : HistOk s.len c) (hnc : NC c) :
    HistOk s.len (run s σ c) ∧ NC (run s σ c) := by
  induction σ generalizing c with
  | nil => exact ⟨h, hnc⟩
  | cons t ts ih =>
    have := step_ok s t h hnc
    exact ih this.1 this.2

theorem init_ok (s : KSrc) (progs : Nat → List SOp) (hp : ∀ t, ∀ o ∈ progs t, NoCloneOp o) :
    HistOk s.len (init s progs) ∧ NC (init s progs) := by
  refine ⟨⟨fun k => by simp [init, atomsOf, runAtoms], fun k => by simp [init, atomsOf, delOf, delivered]⟩, ?_⟩
  intro t
  exact ⟨by simpa [init] using hp t, by simp [init]⟩

/-- **Known-size kinds, every schedule.** For every source, every family of per-thread programs (without
`clone`) and every interleaving `σ` of the threads' steps: on every iterator slot whose history contains no
skip and does not wrap the counter, the positions handed out so far are exactly `0, 1, …, min(counter, len) - 1`,
each once, in hand-out order. -/
theorem cursor_all_schedules (s : KSrc) (progs : Nat → List SOp) (hp : ∀ t, ∀ o ∈ progs t, NoCloneOp o)
    (σ : List Nat) (k : Nat) :
    let c := run s σ (init s progs)
    NoSkip (atomsOf c.hist k) → NoWrap s.len (atomsOf c.hist k) 0 →
      delOf c.del k = List.range (pos s.len (c.ctr k)) := by
  intro c hns hw
  have h := (run_ok s σ (init_ok s progs hp).1 (init_ok s progs hp).2).1
  have h1 := h.del k
  have h2 := h.ctr k
  rw [h1, h2]
  exact delivered_fresh s.len _ hns hw

end Orx.KS
