import Orx.Basic
import Orx.KS
import Orx.IW.Core
import Orx.IW.Full
import Orx.Sim
