import Orx.Sim
open Orx

/-- `orxdriver <cases-file> <out-file>`: replay every case on the model and write the trace blocks. -/
def main (args : List String) : IO UInt32 := do
  match args with
  | [inp, out] =>
    let text ← IO.FS.readFile inp
    let cases := parseCases text
    let h ← IO.FS.Handle.mk out .write
    for c in cases do
      h.putStr (renderCase c)
    h.flush
    return 0
  | _ =>
    IO.eprintln "usage: orxdriver <cases-file> <out-file>"
    return 2
