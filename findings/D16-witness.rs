use orx_concurrent_iter::*;
#[test]
fn chunk_size_hint_is_exact() {
    let it = (0..10).map(|x| x.to_string()).filter(|_| true).into_con_iter();
    let mut b = it.buffered_iter(4);
    let chunk = b.next().unwrap();
    assert_eq!(chunk.values.size_hint(), (4, Some(4)));
    assert_eq!(chunk.values.take(2).len(), 2);
}
