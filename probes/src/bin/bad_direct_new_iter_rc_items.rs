// C14 probe (must be REJECTED): ConIterOfIter::new over an iterator of Rc<i32>
#![allow(unused)]
use orx_concurrent_iter::*;
fn main() {
    let vec: Vec<std::rc::Rc<i32>> = vec![std::rc::Rc::new(1)];
    let iter = ConIterOfIter::new(vec.into_iter());
}
