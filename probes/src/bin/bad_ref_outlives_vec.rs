// C14 probe (must be REJECTED): a reference delivered by vec.con_iter().next() is used after the Vec is gone
#![allow(unused)]
use orx_concurrent_iter::*;
fn main() {
    let kept: &String;
    {
        let vec: Vec<String> = vec![String::from("a")];
        let iter = vec.con_iter();
        kept = iter.next().unwrap();
    }
    println!("{}", kept);
}
