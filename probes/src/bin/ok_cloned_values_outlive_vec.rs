// C14 probe (must compile): clones delivered through cloned() are owned and outlive the Vec
#![allow(unused)]
use orx_concurrent_iter::*;
fn main() {
    let kept: String;
    {
        let vec: Vec<String> = vec![String::from("a")];
        let iter = vec.con_iter().cloned();
        kept = iter.next().unwrap();
    }
    println!("{}", kept);
}
