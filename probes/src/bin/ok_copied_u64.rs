// C14 probe (must compile): vec.con_iter().copied() over u64 shared by two scoped threads
#![allow(unused)]
use orx_concurrent_iter::*;
fn main() {
    let vec: Vec<u64> = vec![1, 2, 3];
    let iter = vec.con_iter().copied();

    std::thread::scope(|s| {
        s.spawn(|| {
            while let Some(x) = iter.next() {
                let _ = &x;
            }
        });
        s.spawn(|| {
            while let Some(x) = iter.next() {
                let _ = &x;
            }
        });
    });
}
