// C14 probe (must be REJECTED): the non-consuming iterator itself escapes the scope of the collection
#![allow(unused)]
use orx_concurrent_iter::*;
fn make<'a>() -> ConIterOfSlice<'a, String> {
    let vec: Vec<String> = vec![String::from("a")];
    vec.con_iter()
}

fn main() {
    let iter = make();
    let _ = iter.next();
}
