// C14 probe (must compile): a wrapped iterator that is Send but not Sync (holds a Cell) may be shared: only one thread at a time touches it (as with Mutex)
#![allow(unused)]
use orx_concurrent_iter::*;
struct Counting {
    left: std::cell::Cell<usize>,
}
impl Iterator for Counting {
    type Item = usize;
    fn next(&mut self) -> Option<usize> {
        if self.left.get() == 0 {
            return None;
        }
        self.left.set(self.left.get() - 1);
        Some(self.left.get())
    }
}

fn main() {
    let iter = Counting { left: std::cell::Cell::new(100) }.into_con_iter();
    std::thread::scope(|s| {
        s.spawn(|| while iter.next().is_some() {});
        s.spawn(|| while iter.next().is_some() {});
    });
}
