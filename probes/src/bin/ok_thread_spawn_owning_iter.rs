// C14 probe (must compile): a consuming iterator is moved into a non-scoped thread
#![allow(unused)]
use orx_concurrent_iter::*;
fn main() {
    let vec: Vec<String> = vec![String::from("a")];
    let iter = vec.into_con_iter();
    let handle = std::thread::spawn(move || iter.next().map(|s| s.len()));
    handle.join().unwrap();
}
