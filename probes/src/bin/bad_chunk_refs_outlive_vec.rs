// C14 probe (must be REJECTED): references inside a next_chunk of vec.con_iter() are used after the Vec is gone
#![allow(unused)]
use orx_concurrent_iter::*;
fn main() {
    let kept: Vec<&String>;
    {
        let vec: Vec<String> = vec![String::from("a"), String::from("b")];
        let iter = vec.con_iter();
        kept = iter.next_chunk(2).unwrap().values.collect();
    }
    println!("{}", kept.len());
}
