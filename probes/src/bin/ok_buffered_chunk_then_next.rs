// C14 probe (must compile): each NextChunk from buffered.next() is consumed and dropped before the following buffered.next()
#![allow(unused)]
use orx_concurrent_iter::*;
fn main() {
    let vec: Vec<String> = (0..8).map(|i| i.to_string()).collect();
    let iter = vec.into_con_iter();
    let mut buffered = iter.buffered_iter(2);
    let n: usize = {
        let first = buffered.next().unwrap();
        first.values.map(|s| s.len()).sum()
    };
    let m: usize = {
        let second = buffered.next().unwrap();
        second.values.map(|s| s.len()).sum()
    };
    let mut rest = 0;
    while let Some(chunk) = buffered.next() {
        rest += chunk.values.len();
    }
    println!("{} {} {}", n, m, rest);
}
