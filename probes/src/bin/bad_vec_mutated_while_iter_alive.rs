// C14 probe (must be REJECTED): the collection is mutated while a non-consuming iterator over it is alive
#![allow(unused)]
use orx_concurrent_iter::*;
fn main() {
    let mut vec: Vec<String> = vec![String::from("a")];
    let iter = vec.con_iter();
    vec.push(String::from("b"));
    let _ = iter.next();
}
