// must be rejected: a buffered iterator (it may hold a chunk of owned elements) cannot be cloned
use orx_concurrent_iter::*;
fn main() {
    let it = vec![String::from("a"), String::from("b")].into_con_iter();
    let buffered = it.buffered_iter(2);
    let _twin = buffered.clone();
}
