// C14 probe (must be REJECTED): ConIterOfSlice::new over Cell<i32>
#![allow(unused)]
use orx_concurrent_iter::*;
fn main() {
    let vec: Vec<std::cell::Cell<i32>> = vec![std::cell::Cell::new(1)];
    let iter = ConIterOfSlice::new(vec.as_slice());
}
