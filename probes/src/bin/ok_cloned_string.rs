// C14 probe (must compile): vec.con_iter().cloned() over String shared by two scoped threads
#![allow(unused)]
use orx_concurrent_iter::*;
fn main() {
    let vec: Vec<String> = vec![String::from("a"), String::from("b")];
    let iter = vec.con_iter().cloned();

    std::thread::scope(|s| {
        s.spawn(|| {
            while let Some(x) = iter.next() {
                let _ = &x;
            }
        });
        s.spawn(|| {
            while let Some(x) = iter.next() {
                let _ = &x;
            }
        });
    });
}
