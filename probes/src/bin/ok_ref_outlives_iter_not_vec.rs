// C14 probe (must compile): a reference delivered by vec.con_iter().next() outlives the iterator but not the Vec
#![allow(unused)]
use orx_concurrent_iter::*;
fn main() {
    let vec: Vec<String> = vec![String::from("a")];
    let kept: &String;
    {
        let iter = vec.con_iter();
        kept = iter.next().unwrap();
    }
    println!("{}", kept);
}
