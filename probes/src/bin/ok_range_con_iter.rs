// C14 probe (must compile): (0..n).con_iter() shared by two scoped threads
#![allow(unused)]
use orx_concurrent_iter::*;
fn main() {
    let range = 0usize..64;
    let iter = range.con_iter();

    std::thread::scope(|s| {
        s.spawn(|| {
            while let Some(x) = iter.next() {
                let _ = &x;
            }
        });
        s.spawn(|| {
            while let Some(x) = iter.next() {
                let _ = &x;
            }
        });
    });
}
