// must be rejected: the wrapper over an Iterator cannot be cloned (cloning means reading the wrapped iterator, which only the
// holder of the turn may touch), even when the wrapped iterator is Clone
use orx_concurrent_iter::*;
fn main() {
    let it = (0..10usize).map(|x| x + 1).into_con_iter();
    let twin = it.clone();
    let _ = (it.next(), twin.next());
}
