// C14 probe (must be REJECTED): the cloned() adaptor still borrows the collection
#![allow(unused)]
use orx_concurrent_iter::*;
fn main() {
    let iter;
    {
        let vec: Vec<String> = vec![String::from("a")];
        iter = vec.con_iter().cloned();
    }
    let _ = iter.next();
}
