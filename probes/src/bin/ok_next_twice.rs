// C14 probe (must compile): the twin: two pulls through the public iterator API give two different elements
#![allow(unused)]
use orx_concurrent_iter::*;
fn main() {
    let vec: Vec<String> = vec![String::from("a"), String::from("b")];
    let iter = vec.into_con_iter();
    let one: Option<String> = iter.next();
    let two: Option<String> = iter.next();
    println!("{:?} {:?}", one, two);
}
