// must be rejected: a consuming array iterator cannot be cloned
use orx_concurrent_iter::*;
fn main() {
    let it = [String::from("a"), String::from("b")].into_con_iter();
    let twin = it.clone();
    let _ = (it.next(), twin.next());
}
