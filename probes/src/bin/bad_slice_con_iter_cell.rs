// C14 probe (must be REJECTED): slice_con_iter over std::cell::Cell<i32> elements used from two scoped threads
#![allow(unused)]
use orx_concurrent_iter::*;
fn main() {
    let vec: Vec<std::cell::Cell<i32>> = vec![std::cell::Cell::new(1), std::cell::Cell::new(1)];
    let slice: &[std::cell::Cell<i32>] = vec.as_slice();
    let iter = slice.con_iter();

    std::thread::scope(|s| {
        s.spawn(|| {
            while let Some(x) = iter.next() {
                let _ = &x;
            }
        });
        s.spawn(|| {
            while let Some(x) = iter.next() {
                let _ = &x;
            }
        });
    });
}
