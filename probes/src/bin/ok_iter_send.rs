// C14 probe (must compile): the Send twin: the wrapped iterator holds an Arc
#![allow(unused)]
use orx_concurrent_iter::*;
/// yields plain integers and holds an atomic reference count: Send
struct Counting {
    shared: std::sync::Arc<std::sync::atomic::AtomicUsize>,
    left: usize,
}
impl Iterator for Counting {
    type Item = usize;
    fn next(&mut self) -> Option<usize> {
        let keep = self.shared.clone();
        keep.fetch_add(1, std::sync::atomic::Ordering::Relaxed);
        if self.left == 0 {
            return None;
        }
        self.left -= 1;
        Some(self.left)
    }
}

fn main() {
    let shared = std::sync::Arc::new(std::sync::atomic::AtomicUsize::new(0));
    let iter = Counting { shared: shared.clone(), left: 1000 }.into_con_iter();
    std::thread::scope(|s| {
        s.spawn(|| while iter.next().is_some() {});
        s.spawn(|| while iter.next().is_some() {});
        let _mine = shared.clone();
    });
}
