// C14 probe (must be REJECTED): cloned() over Cell<i32>: Clone::clone reads the cell from several threads
#![allow(unused)]
use orx_concurrent_iter::*;
fn main() {
    let vec: Vec<std::cell::Cell<i32>> = vec![std::cell::Cell::new(1)];
    let iter = vec.con_iter().cloned();
}
