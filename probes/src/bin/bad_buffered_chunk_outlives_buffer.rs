// C14 probe (must be REJECTED): the values iterator of a buffered chunk escapes the buffered iterator
#![allow(unused)]
use orx_concurrent_iter::*;
fn main() {
    let vec: Vec<String> = (0..8).map(|i| i.to_string()).collect();
    let iter = vec.into_con_iter();
    let chunk = {
        let mut buffered = iter.buffered_iter(2);
        buffered.next().unwrap()
    };
    let n: usize = chunk.values.map(|s| s.len()).sum();
    println!("{}", n);
}
