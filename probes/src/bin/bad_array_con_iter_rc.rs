// C14 probe (must be REJECTED): array_con_iter over std::rc::Rc<i32> elements used from two scoped threads
#![allow(unused)]
use orx_concurrent_iter::*;
fn main() {
    let array: [std::rc::Rc<i32>; 2] = [std::rc::Rc::new(1), std::rc::Rc::new(1)];
    let iter = array.con_iter();

    std::thread::scope(|s| {
        s.spawn(|| {
            while let Some(x) = iter.next() {
                let _ = &x;
            }
        });
        s.spawn(|| {
            while let Some(x) = iter.next() {
                let _ = &x;
            }
        });
    });
}
