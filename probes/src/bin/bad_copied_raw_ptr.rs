// C14 probe (must be REJECTED): copied() over a Copy type that is neither Send nor Sync
#![allow(unused)]
use orx_concurrent_iter::*;
#[derive(Clone, Copy)]
struct P(*const u8);

fn main() {
    let vec: Vec<P> = vec![P(std::ptr::null())];
    let iter = vec.con_iter().copied();
}
