// C14 probe (must be REJECTED): the `values()` sequential view borrows the concurrent iterator
#![allow(unused)]
use orx_concurrent_iter::*;
fn main() {
    let vec: Vec<String> = vec![String::from("a")];
    let mut values = {
        let iter = vec.into_con_iter();
        iter.values()
    };
    let _ = values.next();
}
