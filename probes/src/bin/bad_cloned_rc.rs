// C14 probe (must be REJECTED): cloned() over Rc<i32>: a clone made on another thread shares the non-atomic count
#![allow(unused)]
use orx_concurrent_iter::*;
fn main() {
    let vec: Vec<std::rc::Rc<i32>> = vec![std::rc::Rc::new(1)];
    let iter = ConIterOfSlice::<std::rc::Rc<i32>>::new(vec.as_slice()).cloned();
}
