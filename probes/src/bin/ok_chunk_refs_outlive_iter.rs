// C14 probe (must compile): references of a next_chunk outlive the iterator but not the Vec
#![allow(unused)]
use orx_concurrent_iter::*;
fn main() {
    let vec: Vec<String> = vec![String::from("a"), String::from("b")];
    let kept: Vec<&String>;
    {
        let iter = vec.con_iter();
        kept = iter.next_chunk(2).unwrap().values.collect();
    }
    println!("{}", kept.len());
}
