// C14 probe (must be REJECTED): safe code obtains the same element of a consumed Vec twice through the public low-level trait
#![allow(unused)]
use orx_concurrent_iter::*;
use orx_concurrent_iter::iter::atomic_iter::AtomicIter;

fn main() {
    let vec: Vec<String> = vec![String::from("a")];
    let iter = vec.into_con_iter();
    let one: Option<String> = iter.get(0);
    let two: Option<String> = iter.get(0); // second owner of the same heap buffer
    println!("{:?} {:?}", one, two);
}
