// C14 probe (must be REJECTED): a one-shot chunk of a consumed Vec is still alive when the iterator is converted back
#![allow(unused)]
use orx_concurrent_iter::*;
fn main() {
    let iter = vec![String::from("a"), String::from("b"), String::from("c")].into_con_iter();
    let chunk = iter.next_chunk(2).unwrap();
    let rest: Vec<String> = iter.into_seq_iter().collect();
    for x in chunk.values {
        println!("{x}");
    }
}
