// C14 probe (must be REJECTED): the values of a one-shot chunk of a consumed array are used after the iterator was moved away
#![allow(unused)]
use orx_concurrent_iter::*;
fn main() {
    let iter = [String::from("a"), String::from("b"), String::from("c")].into_con_iter();
    let chunk = iter.next_chunk(2).unwrap();
    let moved = iter;
    for x in chunk.values {
        println!("{x}");
    }
    drop(moved);
}
