// the twin: iterators that own nothing (over a slice, over a range) can be cloned
use orx_concurrent_iter::*;
fn main() {
    let v = vec![String::from("a"), String::from("b")];
    let it = v.con_iter();
    let twin = it.clone();
    let r = (0..4usize).con_iter();
    let r2 = r.clone();
    let _ = (it.next(), twin.next(), r.next(), r2.next());
}
