// must be rejected: a consuming iterator owns the elements it has not yet delivered; a clone would own them a second time
use orx_concurrent_iter::*;
fn main() {
    let it = vec![String::from("a"), String::from("b")].into_con_iter();
    let twin = it.clone();
    let _ = (it.next(), twin.next());
}
