// C14 probe (must be REJECTED): vec_into_con_iter over std::cell::Cell<i32> elements used from two scoped threads
#![allow(unused)]
use orx_concurrent_iter::*;
fn main() {
    let vec: Vec<std::cell::Cell<i32>> = vec![std::cell::Cell::new(1), std::cell::Cell::new(1)];
    // fully qualified: with the method syntax rustc reports the failed bound of `Vec<T>: IntoConcurrentIter` as
    // "`Vec<_>` is not an iterator" (the blanket impl for iterators has a method of the same name)
    let iter = IntoConcurrentIter::into_con_iter(vec);

    std::thread::scope(|s| {
        s.spawn(|| {
            while let Some(x) = iter.next() {
                let _ = &x;
            }
        });
        s.spawn(|| {
            while let Some(x) = iter.next() {
                let _ = &x;
            }
        });
    });
}
