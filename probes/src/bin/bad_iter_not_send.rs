// C14 probe (must be REJECTED): a wrapped iterator that is not Send (holds an Rc) is driven from two scoped threads while the main thread keeps the other Rc handle
#![allow(unused)]
use orx_concurrent_iter::*;
/// yields plain integers, but holds (and clones, on every `next`) a non-atomic reference count
struct Counting {
    shared: std::rc::Rc<std::cell::Cell<usize>>,
    left: usize,
}
impl Iterator for Counting {
    type Item = usize;
    fn next(&mut self) -> Option<usize> {
        let keep = self.shared.clone();
        keep.set(keep.get() + 1);
        if self.left == 0 {
            return None;
        }
        self.left -= 1;
        Some(self.left)
    }
}

fn main() {
    let shared = std::rc::Rc::new(std::cell::Cell::new(0));
    let iter = Counting { shared: shared.clone(), left: 1000 }.into_con_iter();
    std::thread::scope(|s| {
        s.spawn(|| while iter.next().is_some() {});
        s.spawn(|| while iter.next().is_some() {});
        let _mine = shared.clone(); // races with the clones made inside `Counting::next` on the other threads
    });
}
