// C14 probe (must be REJECTED): the values of a one-shot chunk of a consumed Vec (a raw-pointer iterator into the
// iterator's storage) are used after the concurrent iterator is gone
#![allow(unused)]
use orx_concurrent_iter::*;
fn main() {
    let values = {
        let iter = vec![String::from("a"), String::from("b"), String::from("c")].into_con_iter();
        iter.next_chunk(2).unwrap().values
    };
    for x in values {
        println!("{x}");
    }
}
