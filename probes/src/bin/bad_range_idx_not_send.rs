// C14 probe (must be REJECTED): a range over an index type that is not Send
#![allow(unused)]
use orx_concurrent_iter::*;
use std::marker::PhantomData;
use std::ops::{Add, Range, Sub};

#[derive(Clone, Copy, PartialEq, Eq, PartialOrd, Ord)]
struct Idx(usize, PhantomData<*const ()>);
impl From<usize> for Idx {
    fn from(x: usize) -> Self {
        Idx(x, PhantomData)
    }
}
impl From<Idx> for usize {
    fn from(x: Idx) -> usize {
        x.0
    }
}
impl Add for Idx {
    type Output = Idx;
    fn add(self, o: Idx) -> Idx {
        Idx(self.0 + o.0, PhantomData)
    }
}
impl Sub for Idx {
    type Output = Idx;
    fn sub(self, o: Idx) -> Idx {
        Idx(self.0 - o.0, PhantomData)
    }
}

fn main() {
    let range: Range<Idx> = Idx::from(0)..Idx::from(8);
    let iter = ConIterOfRange::new(range);
}
