// C14 probe (must compile): values from into_con_iter() of a consumed Vec outlive the iterator
#![allow(unused)]
use orx_concurrent_iter::*;
fn main() {
    let kept: String;
    let more: Vec<String>;
    {
        let vec: Vec<String> = vec![String::from("a"), String::from("b"), String::from("c")];
        let iter = vec.into_con_iter();
        kept = iter.next().unwrap();
        more = iter.next_chunk(2).unwrap().values.collect();
    }
    println!("{} {}", kept, more.len());
}
