// C14 probe (must compile): ConIterOfSlice::new / ConIterOfVec::new / ConIterOfArray::new / ConIterOfIter::new / From impls over String
#![allow(unused)]
use orx_concurrent_iter::*;
fn main() {
    let vec: Vec<String> = vec![String::from("a")];
    let a = ConIterOfSlice::new(vec.as_slice());
    let b = ConIterOfVec::new(vec.clone());
    let c = ConIterOfArray::new([String::from("a")]);
    let d = ConIterOfIter::new(vec.clone().into_iter());
    let e: ConIterOfVec<String> = vec.clone().into();
    let f = ConIterOfRange::new(0usize..4);
    std::thread::scope(|s| {
        s.spawn(|| (a.next(), b.next(), c.next(), d.next(), e.next(), f.next()));
        s.spawn(|| (a.next(), b.next(), c.next(), d.next(), e.next(), f.next()));
    });
}
