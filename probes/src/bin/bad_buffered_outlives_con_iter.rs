// C14 probe (must be REJECTED): a BufferedIter escapes the concurrent iterator it pulls from
#![allow(unused)]
use orx_concurrent_iter::*;
fn main() {
    let vec: Vec<String> = (0..8).map(|i| i.to_string()).collect();
    let mut buffered = {
        let iter = vec.into_con_iter();
        iter.buffered_iter(2)
    };
    let _ = buffered.next();
}
