// C14 probe (must be REJECTED): a non-consuming iterator over a local Vec is moved into a non-scoped thread
#![allow(unused)]
use orx_concurrent_iter::*;
fn main() {
    let vec: Vec<String> = vec![String::from("a")];
    let iter = vec.con_iter();
    let handle = std::thread::spawn(move || iter.next().map(|s| s.len()));
    handle.join().unwrap();
}
