// C14 probe (must be REJECTED): a NextChunk from buffered.next() is kept alive across the following buffered.next()
#![allow(unused)]
use orx_concurrent_iter::*;
fn main() {
    let vec: Vec<String> = (0..8).map(|i| i.to_string()).collect();
    let iter = vec.into_con_iter();
    let mut buffered = iter.buffered_iter(2);
    let first = buffered.next().unwrap();
    let second = buffered.next().unwrap();
    let n: usize = first.values.map(|s| s.len()).sum();
    let m: usize = second.values.map(|s| s.len()).sum();
    println!("{} {}", n, m);
}
