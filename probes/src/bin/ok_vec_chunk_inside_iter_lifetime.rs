// C14 probe (must compile): the twin -- the chunk of a consumed Vec is consumed while the iterator is alive; the owned values outlive it
#![allow(unused)]
use orx_concurrent_iter::*;
fn main() {
    let kept: Vec<String>;
    {
        let iter = vec![String::from("a"), String::from("b"), String::from("c")].into_con_iter();
        kept = iter.next_chunk(2).unwrap().values.collect();
        let rest: Vec<String> = iter.into_seq_iter().collect();
    }
    println!("{kept:?}");
}
