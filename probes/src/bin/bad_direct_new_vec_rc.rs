// C14 probe (must be REJECTED): ConIterOfVec::new over Rc<i32>
#![allow(unused)]
use orx_concurrent_iter::*;
fn main() {
    let vec: Vec<std::rc::Rc<i32>> = vec![std::rc::Rc::new(1)];
    let iter = ConIterOfVec::new(vec);
}
