// C14 probe (must be REJECTED): the Vec is dropped while a delivered reference is still used
#![allow(unused)]
use orx_concurrent_iter::*;
fn main() {
    let vec: Vec<String> = vec![String::from("a")];
    let iter = vec.con_iter();
    let kept: &String = iter.next().unwrap();
    drop(vec);
    println!("{}", kept);
}
