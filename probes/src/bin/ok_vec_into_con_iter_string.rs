// C14 probe (must compile): vec_into_con_iter over String elements used from two scoped threads
#![allow(unused)]
use orx_concurrent_iter::*;
fn main() {
    let vec: Vec<String> = vec![String::from("a"), String::from("a")];
    let iter = vec.into_con_iter();

    std::thread::scope(|s| {
        s.spawn(|| {
            while let Some(x) = iter.next() {
                let _ = &x;
            }
        });
        s.spawn(|| {
            while let Some(x) = iter.next() {
                let _ = &x;
            }
        });
    });
}
