// C14 probe (must compile): vec_into_con_iter over String elements used from two scoped threads
#![allow(unused)]
use orx_concurrent_iter::*;
fn main() {
    let vec: Vec<String> = vec![String::from("a"), String::from("a")];
    // fully qualified: with the method syntax rustc reports the failed bound of `Vec<T>: IntoConcurrentIter` as
    // "`Vec<_>` is not an iterator" (the blanket impl for iterators has a method of the same name)
    let iter = IntoConcurrentIter::into_con_iter(vec);

    std::thread::scope(|s| {
        s.spawn(|| {
            while let Some(x) = iter.next() {
                let _ = &x;
            }
        });
        s.spawn(|| {
            while let Some(x) = iter.next() {
                let _ = &x;
            }
        });
    });
}
