// C14 probe (must compile): owned values collected from a buffered chunk outlive the buffer and the iterator
#![allow(unused)]
use orx_concurrent_iter::*;
fn main() {
    let vec: Vec<String> = (0..8).map(|i| i.to_string()).collect();
    let kept: Vec<String>;
    {
        let iter = vec.into_con_iter();
        let mut buffered = iter.buffered_iter(2);
        kept = buffered.next().unwrap().values.collect();
    }
    println!("{}", kept.len());
}
