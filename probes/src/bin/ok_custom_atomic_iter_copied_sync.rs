// C14 probe (must compile: a hand-written Sync implementation of AtomicIter wrapped by copied() and shared by two scoped threads)
#![allow(unused)]
use orx_concurrent_iter::iter::atomic_iter::AtomicIter;
use orx_concurrent_iter::*;
use std::cell::Cell;
use std::sync::atomic::{AtomicUsize, Ordering};

/// a hand-written implementation of the public low-level trait over a slice; it counts the calls of `get`
struct Probed<'a> {
    slice: &'a [usize],
    counter: AtomicCounter,
    probes: AtomicUsize,
}

impl<'a> AtomicIter<&'a usize> for Probed<'a> {
    fn counter(&self) -> &AtomicCounter {
        &self.counter
    }

    fn progress_and_get_begin_idx(&self, number_to_fetch: usize) -> Option<usize> {
        let begin_idx = self.counter.fetch_and_add(number_to_fetch);
        match begin_idx < self.slice.len() {
            true => Some(begin_idx),
            false => None,
        }
    }

    fn get(&self, item_idx: usize) -> Option<&'a usize> {
        self.probes.fetch_add(1, Ordering::Relaxed);
        self.slice.get(item_idx)
    }

    fn fetch_n(&self, n: usize) -> Option<NextChunk<&'a usize, impl ExactSizeIterator<Item = &'a usize>>> {
        let begin_idx = self.progress_and_get_begin_idx(n)?;
        let end_idx = begin_idx.saturating_add(n).min(self.slice.len());
        Some(NextChunk {
            begin_idx,
            values: self.slice[begin_idx..end_idx].iter(),
        })
    }

    fn early_exit(&self) {
        self.counter.store(self.slice.len())
    }
}

fn main() {
    let data: Vec<usize> = (0..64usize).map(|i| i).collect();
    let probed = Probed {
        slice: data.as_slice(),
        counter: AtomicCounter::new(),
        probes: AtomicUsize::new(0),
    };
    let iter = probed.copied();
    let iter = &iter;
    std::thread::scope(|s| {
        for _ in 0..2 {
            s.spawn(move || {
                let mut n = 0usize;
                while let Some(x) = iter.fetch_one() {
                    n += x.idx;
                }
                n
            });
        }
    });
}
