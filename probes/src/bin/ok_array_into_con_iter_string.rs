// C14 probe (must compile): array_into_con_iter over String elements used from two scoped threads
#![allow(unused)]
use orx_concurrent_iter::*;
fn main() {
    let array: [String; 2] = [String::from("a"), String::from("a")];
    let iter = array.into_con_iter();

    std::thread::scope(|s| {
        s.spawn(|| {
            while let Some(x) = iter.next() {
                let _ = &x;
            }
        });
        s.spawn(|| {
            while let Some(x) = iter.next() {
                let _ = &x;
            }
        });
    });
}
