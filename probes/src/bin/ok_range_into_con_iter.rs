// C14 probe (must compile): IntoConcurrentIter::into_con_iter(0..n) shared by two scoped threads
#![allow(unused)]
use orx_concurrent_iter::*;
fn main() {
    let range = 0usize..64;
    let iter = IntoConcurrentIter::into_con_iter(range);

    std::thread::scope(|s| {
        s.spawn(|| {
            while let Some(x) = iter.next() {
                let _ = &x;
            }
        });
        s.spawn(|| {
            while let Some(x) = iter.next() {
                let _ = &x;
            }
        });
    });
}
