#!/usr/bin/env python3
"""Random small-case generator for throughput/soak tests of orx-harness.
usage: gen_cases.py <count> [seed] [--safe-debug]   (writes the case file to stdout)
--safe-debug avoids inputs that abort the process in the debug profile on the current crate
(chunk pulls on vec/array, array drop/into_seq)."""
import random, sys

def main():
    args = [a for a in sys.argv[1:] if not a.startswith('--')]
    safe = '--safe-debug' in sys.argv
    n = int(args[0]); seed = int(args[1]) if len(args) > 1 else 1
    r = random.Random(seed)
    out = []
    for c in range(n):
        kinds = ['slice', 'vecref', 'arrref', 'vec', 'array', 'range', 'iter', 'iterref']
        if safe: kinds.remove('array')
        kind = r.choice(kinds)
        ln = r.randint(0, 6)
        vals = [r.randint(0, 99) for _ in range(ln)]
        adapt = 'none'
        iters = 1
        if kind in ('slice', 'vecref', 'arrref', 'iterref') and r.random() < 0.4:
            adapt = r.choice(['cloned', 'copied'])
        if kind in ('slice', 'vecref', 'arrref', 'range') and r.random() < 0.3:
            iters = r.randint(1, 2)
        if kind == 'range':
            s = r.randint(0, 5); src = f'src range start={s} stop={s + ln}'
        elif kind in ('iter', 'iterref'):
            script = [f'S{v}' for v in vals]
            if r.random() < 0.3 and script: script.insert(r.randrange(len(script) + 1), 'N')
            if r.random() < 0.1: script.insert(r.randrange(len(script) + 1), 'P')
            src = f"src {kind} script={','.join(script)} hint={r.choice(['exact', 'inexact', 'unbounded'])}"
        else:
            src = f"src {kind} vals={','.join(map(str, vals))}"
        if iters > 1: src += f' iters={iters}'
        clonable = adapt == 'none' and kind in ('slice', 'vecref', 'arrref', 'range')
        nt = r.randint(1, 3)
        chunky = not (safe and kind in ('vec', 'array'))
        used_clone = False
        threads = []
        for t in range(nt):
            ops = []
            has_buf = False
            for _ in range(r.randint(0, 4)):
                choices = ['next', 'nextv', 'skip', 'len', 'hasmore', 'get', 'values', 'idsvalues', 'foreach1', 'fold1']
                if chunky: choices += ['chunk', 'bufnew', 'foreach', 'enumforeach', 'fold']
                if has_buf: choices += ['bufnext', 'bufnext', 'bufdrop']
                if clonable and not used_clone and iters < 3: choices.append('clone')
                o = r.choice(choices)
                k = r.choice(['all', '0', '1', '2'])
                pre = f'@{r.randrange(iters)} ' if iters > 1 and r.random() < 0.5 else ''
                if o == 'chunk': ops.append(f'{pre}chunk {r.randint(0, 3)} {k}')
                elif o == 'bufnew': ops.append(f'{pre}bufnew {r.randint(1, 3)}'); has_buf = True
                elif o == 'bufnext': ops.append(f'bufnext {k}')
                elif o == 'bufdrop': ops.append('bufdrop'); has_buf = False
                elif o in ('foreach', 'enumforeach'):
                    p = f' panic={r.randint(0, 3)}' if r.random() < 0.2 else ''
                    ops.append(f'{pre}{o} {r.randint(1, 3)}{p}')
                elif o == 'foreach1': ops.append(f'{pre}foreach 1')
                elif o == 'fold1': ops.append(f'{pre}fold 1')
                elif o == 'fold': ops.append(f'{pre}fold {r.randint(1, 3)}')
                elif o == 'get': ops.append(f'{pre}get {r.randint(0, 7)}')
                elif o == 'clone': ops.append(f'{pre}clone 3'); used_clone = True
                else: ops.append(pre + o)
            threads.append(ops)
        out.append(f'case g{seed}-{c:05d}')
        out.append(src)
        if adapt != 'none': out.append(f'adapt {adapt}')
        out.append('mode release')
        if adapt == 'cloned' and r.random() < 0.2: out.append(f'clonepanic {r.randint(0, 4)}')
        for t, ops in enumerate(threads): out.append(f"thread {t}: {' ; '.join(ops)}".rstrip())
        if safe and kind == 'array': owner = 'drop'
        else: owner = r.choice(['drop', 'intoseq all', 'intoseq 1', 'intoseq 0'])
        out.append(f'owner {owner}')
        out.append('sched ' + ' '.join(str(r.randrange(nt)) for _ in range(r.randint(0, 25))))
        if nt > 1 and r.random() < 0.15: out.append(f'frozen {r.randrange(nt)}')
        out.append('end')
    print('\n'.join(out))

main()
