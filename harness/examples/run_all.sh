#!/bin/bash
# Restart driver: runs all cases of <cases-file>, restarting the harness after a process abort.
# usage: run_all.sh <harness-binary> <cases-file> <out-file>
# The block of an aborted case stays without `fin` line (the checker records `fin abort`).
set -u
BIN=$1; CASES=$2; OUT=$3
: > "$OUT"
K=0
while :; do
  "$BIN" "$CASES" "$OUT" --start "$K" 2>/dev/null
  rc=$?
  if [ $rc -eq 0 ]; then exit 0; fi
  if [ $rc -eq 2 ] || [ $rc -eq 1 ]; then echo "harness error rc=$rc" >&2; exit $rc; fi
  # abort (signal) or hang (3): continue after the case that was running
  # make sure the partial block ends with a newline
  [ -n "$(tail -c1 "$OUT")" ] && echo >> "$OUT"
  K=$(grep -c '^case ' "$OUT")
done
