//! orx-harness: drives the real `orx-concurrent-iter` crate under a deterministic token-passing
//! scheduler and prints the trace specified in /verif/FORMAT.md.

mod alloc;
mod case;
mod elem;
mod rt;
mod run;

use std::fs::OpenOptions;

#[global_allocator]
static GLOBAL: alloc::Counting = alloc::Counting;

fn usage() -> ! {
    eprintln!("usage: orx-harness <cases-file> <out-file> [--start K]");
    std::process::exit(2);
}

fn main() {
    let args: Vec<String> = std::env::args().skip(1).collect();
    let mut pos: Vec<&str> = Vec::new();
    let mut start = 0usize;
    let mut i = 0;
    while i < args.len() {
        if args[i] == "--start" {
            i += 1;
            start = match args.get(i).and_then(|s| s.parse().ok()) {
                Some(k) => k,
                None => usage(),
            };
        } else {
            pos.push(&args[i]);
        }
        i += 1;
    }
    if pos.len() != 2 {
        usage();
    }
    let text = match std::fs::read_to_string(pos[0]) {
        Ok(t) => t,
        Err(e) => {
            eprintln!("orx-harness: cannot read {}: {e}", pos[0]);
            std::process::exit(2);
        }
    };
    let cases = match case::parse_cases(&text) {
        Ok(c) => c,
        Err(e) => {
            eprintln!("orx-harness: malformed case file: {e}");
            std::process::exit(2);
        }
    };
    let file = match OpenOptions::new().create(true).append(true).open(pos[1]) {
        Ok(f) => f,
        Err(e) => {
            eprintln!("orx-harness: cannot open {}: {e}", pos[1]);
            std::process::exit(1);
        }
    };
    *rt::OUT.lock().unwrap() = Some(file);

    std::panic::set_hook(Box::new(|_| {}));
    if !orx_concurrent_iter::verif_shim::set_observer(Box::new(rt::Obs)) {
        eprintln!("orx-harness: observer already installed");
        std::process::exit(1);
    }
    rt::spawn_watchdog();

    for c in cases.iter().skip(start) {
        rt::write_raw(&format!("case {}\n", c.id));
        run::run_case(c);
    }
    std::process::exit(0);
}
