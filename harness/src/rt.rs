//! Runtime: global per-case state, trace logging, token passing, the shim observer, watchdog.

use crate::alloc::set_track;
use orx_concurrent_iter::verif_shim::{Access, AccessKind, Observer};
use std::cell::Cell;
use std::fmt::Write as _;
use std::fs::File;
use std::io::Write as _;
use std::sync::atomic::{AtomicBool, AtomicU64, Ordering};
use std::sync::{Condvar, Mutex, MutexGuard};

/// `turn` value meaning "the scheduler holds the token".
pub const SCHED: usize = usize::MAX;
/// thread-local TID value of a thread that is not a virtual thread.
pub const NO_TID: usize = usize::MAX;

/// Payload used to unwind unfinished virtual threads at the end of a case.
pub struct AbortToken;
/// Panic payloads raised by harness instruments.
pub struct ProbePanic;
pub struct ClonePanic;
pub struct ClosurePanic;
pub struct DropPanic;

pub struct Core {
    pub turn: usize,
    pub abort: bool,
    pub finished: Vec<bool>,
    pub ready: usize,
    /// number of lines logged by virtual threads in the current step
    pub step_lines: usize,
    /// set if a line of the current step is a load: (loc, value)
    pub step_load: Option<(String, u64)>,
    /// registered atomic locations
    pub locs: Vec<(usize, String)>,
    /// true for iter/iterref (unknown usize atomics are `Y`), false: unknown usize atomics are `ctr`
    pub iter_kind: bool,
}

pub static CORE: Mutex<Core> = Mutex::new(Core {
    turn: SCHED,
    abort: false,
    finished: Vec::new(),
    ready: 0,
    step_lines: 0,
    step_load: None,
    locs: Vec::new(),
    iter_kind: false,
});
pub static CV: Condvar = Condvar::new();
pub static OUT: Mutex<Option<File>> = Mutex::new(None);

pub static ACTIVE: AtomicBool = AtomicBool::new(false);
pub static LOG_ON: AtomicBool = AtomicBool::new(false);
pub static PROGRESS: AtomicU64 = AtomicU64::new(0);
/// trace lines written for the current case; a case that writes more than `LINE_LIMIT` lines is runaway
/// (e.g. a loop that never sees the end): it is reported like a hang.
pub static CASE_LINES: AtomicU64 = AtomicU64::new(0);
pub const LINE_LIMIT: u64 = 50_000;
/// the limit of the current case: `LINE_LIMIT` plus a few lines per source element (large sources write long traces)
pub static CASE_LIMIT: AtomicU64 = AtomicU64::new(LINE_LIMIT);
pub static CLONES: AtomicU64 = AtomicU64::new(0);
pub static CLONEPANIC: AtomicU64 = AtomicU64::new(u64::MAX);
/// `clonepoint`: `Clone::clone` of an element is a scheduling point (impl-only cases)
pub static CLONEPOINT: std::sync::atomic::AtomicBool = std::sync::atomic::AtomicBool::new(false);
/// `rawskip`: the `skip` operation goes through the public `AtomicIter::early_exit` instead of `ConcurrentIter::skip_to_end`
/// `clonefrom`: a `clone j` operation is performed as `Clone::clone_from` onto an iterator that is ahead of the source
/// (a clone of it, skipped to its end) instead of `Clone::clone`
pub static CLONEFROM: std::sync::atomic::AtomicBool = std::sync::atomic::AtomicBool::new(false);
/// set while the iterator of slot 0 lives in the last slot (`relocate`)
pub static RELOCATED: std::sync::atomic::AtomicBool = std::sync::atomic::AtomicBool::new(false);
/// inside a wait window of the schedule: atomic loads are scheduling points as always but are not logged
pub static QUIET_LOADS: std::sync::atomic::AtomicBool = std::sync::atomic::AtomicBool::new(false);
pub static FREE_RUN: std::sync::atomic::AtomicUsize = std::sync::atomic::AtomicUsize::new(usize::MAX);
pub static FREE_UNTIL: Mutex<Option<std::time::Instant>> = Mutex::new(None);
/// `reenter k`: the k-th call of the wrapped iterator's `next()` queries the concurrent iterator that wraps it
pub static REENTER_AT: std::sync::atomic::AtomicUsize = std::sync::atomic::AtomicUsize::new(usize::MAX);
/// `reenter k skip`: … and then calls `skip_to_end` on it
pub static REENTER_SKIP: std::sync::atomic::AtomicBool = std::sync::atomic::AtomicBool::new(false);
static REENTER_FN: Mutex<Option<(usize, fn(usize))>> = Mutex::new(None);

pub fn set_reenter(at: Option<usize>, data: usize, f: fn(usize)) {
    REENTER_AT.store(at.unwrap_or(usize::MAX), Ordering::Relaxed);
    *REENTER_FN.lock().unwrap_or_else(|e| e.into_inner()) = Some((data, f));
}

pub fn clear_reenter() {
    REENTER_AT.store(usize::MAX, Ordering::Relaxed);
    *REENTER_FN.lock().unwrap_or_else(|e| e.into_inner()) = None;
}

/// called by the probe from inside its `next()`
pub fn reenter(call_no: usize) {
    if REENTER_AT.load(Ordering::Relaxed) != call_no || tid() == NO_TID || silent() {
        return;
    }
    let h = *REENTER_FN.lock().unwrap_or_else(|e| e.into_inner());
    if let Some((d, f)) = h {
        f(d);
    }
}

/// `dropwait <v> <t>`: the destructor of the element with payload v, when it runs on a thread of the case, waits (a bounded
/// number of scheduling points) until thread t has finished its program
pub static DROPWAIT_VAL: AtomicU64 = AtomicU64::new(u64::MAX);
pub static DROPWAIT_TID: std::sync::atomic::AtomicUsize = std::sync::atomic::AtomicUsize::new(usize::MAX);

/// a thread without a program counts as finished from the start
pub fn mark_finished(t: usize) {
    let mut g = core();
    if t < g.finished.len() {
        g.finished[t] = true;
    }
}

pub fn thread_finished(t: usize) -> bool {
    let g = core();
    g.finished.get(t).copied().unwrap_or(true)
}

pub static RAWSKIP: std::sync::atomic::AtomicBool = std::sync::atomic::AtomicBool::new(false);
/// logged destructions of (non-clone) elements so far in this case, and the one that panics
pub static DROPS: AtomicU64 = AtomicU64::new(0);
pub static DROPPANIC: AtomicU64 = AtomicU64::new(u64::MAX);

thread_local! {
    static TID: Cell<usize> = const { Cell::new(NO_TID) };
    static SILENT: Cell<bool> = const { Cell::new(false) };
}

pub fn core() -> MutexGuard<'static, Core> {
    CORE.lock().unwrap_or_else(|e| e.into_inner())
}

pub fn tid() -> usize {
    TID.with(|t| t.get())
}

pub fn silent() -> bool {
    SILENT.with(|s| s.get())
}

pub fn mark_silent() {
    SILENT.with(|s| s.set(true));
}

/// Runs `f` with this thread's accesses neither scheduled nor logged (harness set-up work inside an operation).
pub fn with_silent<R>(f: impl FnOnce() -> R) -> R {
    let prev = SILENT.with(|s| s.replace(true));
    let r = f();
    SILENT.with(|s| s.set(prev));
    r
}

/// Writes raw text to the out file (no prefix, no step accounting) and flushes.
pub fn write_raw(s: &str) {
    let mut g = OUT.lock().unwrap_or_else(|e| e.into_inner());
    if let Some(f) = g.as_mut() {
        if f.write_all(s.as_bytes()).is_err() || f.flush().is_err() {
            eprintln!("orx-harness: cannot write to the out file");
            std::process::exit(1);
        }
    }
    drop(g);
    PROGRESS.fetch_add(1, Ordering::Relaxed);
    if CASE_LINES.fetch_add(1, Ordering::Relaxed) == CASE_LIMIT.load(Ordering::Relaxed) {
        runaway();
    }
}

/// The case does unbounded work (e.g. iterates a wrapped-around range): report it like a hang and stop.
pub fn runaway() -> ! {
    LOG_ON.store(false, Ordering::SeqCst);
    let mut g = OUT.lock().unwrap_or_else(|e| e.into_inner());
    if let Some(f) = g.as_mut() {
        let _ = f.write_all(b"fin hang\n");
        let _ = f.flush();
    }
    std::process::exit(3);
}

/// true while the calling thread's lines are recorded
pub fn logging() -> bool {
    LOG_ON.load(Ordering::Relaxed) && !silent()
}

/// Logs one trace line `T<t> <body>` / `own <body>`.
pub fn log(body: std::fmt::Arguments<'_>) {
    if !LOG_ON.load(Ordering::Relaxed) || silent() {
        return;
    }
    let prev = set_track(false);
    {
        let t = tid();
        let mut line = String::with_capacity(64);
        if t == NO_TID {
            line.push_str("own ");
        } else {
            let _ = write!(line, "T{} ", t);
            core().step_lines += 1;
        }
        let _ = line.write_fmt(body);
        line.push('\n');
        write_raw(&line);
    }
    set_track(prev);
}

#[macro_export]
macro_rules! tlog {
    ($($arg:tt)*) => { $crate::rt::log(format_args!($($arg)*)) };
}

// ---------------------------------------------------------------------------------------------
// virtual thread side

/// Registers the calling OS thread as virtual thread `t` (does not block).
pub fn thread_enter(t: usize) {
    TID.with(|x| x.set(t));
    SILENT.with(|s| s.set(false));
    set_track(false);
    let mut g = core();
    g.ready += 1;
    CV.notify_all();
}

/// Blocks until thread `t` is granted a step. `give_back`: hand the token back to the scheduler
/// first (false only for the very first scheduling point of a thread). Returns false on abort.
pub fn wait_grant(t: usize, give_back: bool) -> bool {
    let mut g = core();
    if give_back {
        g.turn = SCHED;
        CV.notify_all();
    }
    loop {
        if g.turn == t {
            return true;
        }
        if g.abort {
            return false;
        }
        g = CV.wait(g).unwrap_or_else(|e| e.into_inner());
    }
}

/// Scheduling point inside crate/probe code: blocks for a grant; on abort unwinds the thread.
pub fn point(t: usize) {
    // inside a wait window of the schedule the thread keeps the token: it runs at native speed until the window closes
    if FREE_RUN.load(Ordering::Relaxed) == t {
        let open = FREE_UNTIL
            .lock()
            .unwrap_or_else(|e| e.into_inner())
            .map_or(false, |d| std::time::Instant::now() < d);
        if open {
            return;
        }
    }
    if !wait_grant(t, true) {
        mark_silent();
        set_track(false);
        if !std::thread::panicking() {
            std::panic::resume_unwind(Box::new(AbortToken));
        }
    }
}

/// The thread's program is over (normally or by a logged panic).
pub fn finish(t: usize) {
    let mut g = core();
    if t < g.finished.len() {
        g.finished[t] = true;
    }
    g.turn = SCHED;
    CV.notify_all();
}

// ---------------------------------------------------------------------------------------------
// scheduler side

pub fn begin_case(nthreads: usize, iter_kind: bool, clonepanic: Option<u64>, droppanic: Option<u64>, src_len: u64) {
    {
        let mut g = core();
        g.turn = SCHED;
        g.abort = false;
        g.finished.clear();
        g.finished.resize(nthreads, false);
        g.ready = 0;
        g.step_lines = 0;
        g.step_load = None;
        g.locs.clear();
        g.iter_kind = iter_kind;
    }
    CLONES.store(0, Ordering::Relaxed);
    CLONEPANIC.store(clonepanic.unwrap_or(u64::MAX), Ordering::Relaxed);
    DROPS.store(0, Ordering::Relaxed);
    DROPPANIC.store(droppanic.unwrap_or(u64::MAX), Ordering::Relaxed);
    crate::alloc::reset();
    CASE_LINES.store(0, Ordering::Relaxed);
    CASE_LIMIT.store(LINE_LIMIT.saturating_add(src_len.saturating_mul(8)), Ordering::Relaxed);
    ACTIVE.store(true, Ordering::SeqCst);
    LOG_ON.store(true, Ordering::SeqCst);
}

pub fn end_case() {
    LOG_ON.store(false, Ordering::SeqCst);
    ACTIVE.store(false, Ordering::SeqCst);
}

pub fn loc_name(addr: usize) -> Option<String> {
    let prev = set_track(false);
    let r = core().locs.iter().find(|(a, _)| *a == addr).map(|(_, n)| n.clone());
    set_track(prev);
    r
}

pub fn register_loc(addr: usize, name: String) {
    let prev = set_track(false);
    {
        let mut g = core();
        g.locs.retain(|(a, _)| *a != addr);
        g.locs.push((addr, name));
    }
    set_track(prev);
}

pub fn wait_ready(n: usize) {
    let mut g = core();
    while g.ready < n {
        g = CV.wait(g).unwrap_or_else(|e| e.into_inner());
    }
}

pub struct StepResult {
    pub lines: usize,
    pub load: Option<(String, u64)>,
    pub finished: bool,
}

/// Grants one step to thread `t` and waits until the token comes back.
pub fn grant_and_wait(t: usize) -> StepResult {
    let mut g = core();
    g.step_lines = 0;
    g.step_load = None;
    g.turn = t;
    PROGRESS.fetch_add(1, Ordering::Relaxed);
    CV.notify_all();
    while g.turn != SCHED {
        g = CV.wait(g).unwrap_or_else(|e| e.into_inner());
    }
    StepResult {
        lines: g.step_lines,
        load: g.step_load.take(),
        finished: g.finished[t],
    }
}

pub fn abort_all() {
    let mut g = core();
    g.abort = true;
    CV.notify_all();
}

// ---------------------------------------------------------------------------------------------
// observer

pub fn ord_name(o: Ordering) -> &'static str {
    match o {
        Ordering::Relaxed => "relaxed",
        Ordering::Acquire => "acquire",
        Ordering::Release => "release",
        Ordering::AcqRel => "acqrel",
        Ordering::SeqCst => "seqcst",
        _ => "unknown",
    }
}

pub struct Obs;

impl Observer for Obs {
    fn before(&self, _addr: usize, _is_bool: bool, _kind: AccessKind, _o: Ordering, _arg: usize) {
        let t = tid();
        if t == NO_TID || silent() {
            return;
        }
        let prev = set_track(false);
        point(t);
        set_track(prev);
    }

    fn after(&self, a: &Access) {
        if !ACTIVE.load(Ordering::Relaxed) || !LOG_ON.load(Ordering::Relaxed) || silent() {
            return;
        }
        if a.kind == AccessKind::Load && QUIET_LOADS.load(Ordering::Relaxed) {
            return;
        }
        let prev = set_track(false);
        {
            let t = tid();
            let loc: String = {
                let mut g = core();
                let loc = match g.locs.iter().find(|(x, _)| *x == a.addr) {
                    Some((_, n)) => n.clone(),
                    None if a.is_bool => "C".to_string(),
                    None if g.iter_kind => "Y".to_string(),
                    None => "ctr".to_string(),
                };
                if t != NO_TID && a.kind == AccessKind::Load {
                    g.step_load = Some((loc.clone(), a.read as u64));
                }
                loc
            };
            let o = ord_name(a.ordering);
            match a.kind {
                AccessKind::Load => log(format_args!("at {} ld {} {}", loc, o, a.read)),
                AccessKind::Store => log(format_args!("at {} st {} {}", loc, o, a.arg)),
                AccessKind::FetchAdd => {
                    log(format_args!("at {} faa {} {} {}", loc, o, a.read, a.arg))
                }
                AccessKind::Swap => log(format_args!("at {} swp {} {} {}", loc, o, a.read, a.arg)),
            }
        }
        set_track(prev);
    }
}

// ---------------------------------------------------------------------------------------------
// watchdog

pub fn spawn_watchdog() {
    std::thread::spawn(|| {
        let mut last = PROGRESS.load(Ordering::Relaxed);
        let mut idle_ms = 0u64;
        loop {
            std::thread::sleep(std::time::Duration::from_millis(200));
            let now = PROGRESS.load(Ordering::Relaxed);
            if now != last || !ACTIVE.load(Ordering::Relaxed) {
                last = now;
                idle_ms = 0;
                continue;
            }
            idle_ms += 200;
            if idle_ms >= 3_000 {
                LOG_ON.store(false, Ordering::SeqCst);
                write_raw("fin hang\n");
                std::process::exit(3);
            }
        }
    });
}
