//! Ledger elements, payload access, probe iterators.

use crate::alloc::set_track;
use crate::case::{Entry, Hint};
use crate::rt::{self, ClonePanic, DropPanic, ProbePanic, CLONEPANIC, CLONES, DROPPANIC, DROPS, NO_TID};
use crate::tlog;
use std::sync::atomic::Ordering;

#[derive(Debug)]
pub struct Elem {
    pub val: u64,
    pub is_clone: bool,
}

impl Elem {
    pub fn new(val: u64) -> Self {
        Self {
            val,
            is_clone: false,
        }
    }
}

impl Drop for Elem {
    fn drop(&mut self) {
        if self.is_clone {
            tlog!("dropc {}", self.val);
        } else {
            tlog!("drop {}", self.val);
            if self.val == rt::DROPWAIT_VAL.load(Ordering::Relaxed) && rt::tid() != NO_TID && !rt::silent() && rt::logging() {
                // a destructor that blocks until another thread's program is over
                let t = rt::DROPWAIT_TID.load(Ordering::Relaxed);
                let mut rounds = 0;
                while !rt::thread_finished(t) && rounds < 400 {
                    probe_point();
                    rounds += 1;
                }
                if !rt::thread_finished(t) {
                    tlog!("dropwait-starved {} waited for T{}", self.val, t);
                }
            }
            // destructor fault injection: the k-th recorded destruction panics (never while already unwinding:
            // a second panic would abort the process)
            if rt::logging() {
                let k = DROPS.fetch_add(1, Ordering::Relaxed);
                if k == DROPPANIC.load(Ordering::Relaxed) && !std::thread::panicking() {
                    set_track(false);
                    std::panic::panic_any(DropPanic);
                }
            }
        }
    }
}

impl Clone for Elem {
    fn clone(&self) -> Self {
        if rt::CLONEPOINT.load(Ordering::Relaxed) && rt::tid() != NO_TID && !rt::silent() {
            // other threads may run while this clone is in flight
            probe_point();
        }
        tlog!("clone {}", self.val);
        let k = CLONES.fetch_add(1, Ordering::Relaxed);
        if k == CLONEPANIC.load(Ordering::Relaxed) {
            set_track(false);
            std::panic::panic_any(ClonePanic);
        }
        Self {
            val: self.val,
            is_clone: true,
        }
    }
}

/// Zero-sized element with an observable destructor (payload 0; destructions are logged like `Elem`'s).
#[derive(Debug)]
pub struct ZElem;

impl Drop for ZElem {
    fn drop(&mut self) {
        tlog!("drop 0");
        if rt::logging() {
            let k = DROPS.fetch_add(1, Ordering::Relaxed);
            if k == DROPPANIC.load(Ordering::Relaxed) && !std::thread::panicking() {
                set_track(false);
                std::panic::panic_any(DropPanic);
            }
        }
    }
}

impl Payload for ZElem {
    fn val(&self) -> u64 {
        0
    }
    fn forget(self) {
        std::mem::forget(self)
    }
}

impl Payload for &ZElem {
    fn val(&self) -> u64 {
        0
    }
    fn forget(self) {}
}

/// `Copy` element with a hand-written, observable `Clone`: a `copied()` adaptor copies bits and never calls it
#[derive(Copy, Debug)]
pub struct CElem(pub u64);

impl Clone for CElem {
    fn clone(&self) -> Self {
        tlog!("clonecopy {}", self.0);
        CElem(self.0)
    }
}

/// A *large* element with a destructor (`fat <bytes>`): an `Elem` followed by padding. Everything observable is the `Elem`'s.
pub struct FatElem<const P: usize> {
    pub inner: Elem,
    pub pad: [u8; P],
}

impl<const P: usize> FatElem<P> {
    pub fn new(val: u64) -> Self {
        Self { inner: Elem::new(val), pad: [(val & 0xff) as u8; P] }
    }
}

impl<const P: usize> Clone for FatElem<P> {
    fn clone(&self) -> Self {
        Self { inner: self.inner.clone(), pad: self.pad }
    }
}

/// A large `Copy` element (for `copied()`): payload and padding
#[derive(Copy)]
pub struct FatCElem<const P: usize> {
    pub inner: CElem,
    pub pad: [u8; P],
}

impl<const P: usize> Clone for FatCElem<P> {
    fn clone(&self) -> Self {
        Self { inner: self.inner.clone(), pad: self.pad }
    }
}

impl<const P: usize> Payload for FatElem<P> {
    fn val(&self) -> u64 {
        // the padding travels with the element: a torn or shifted copy shows
        if self.pad.first().map_or(false, |b| *b != (self.inner.val & 0xff) as u8) || self.pad.last().map_or(false, |b| *b != (self.inner.val & 0xff) as u8) {
            return u64::MAX - 7;
        }
        self.inner.val
    }
    fn forget(self) {
        std::mem::forget(self)
    }
}

impl<const P: usize> Payload for &FatElem<P> {
    fn val(&self) -> u64 {
        (*self).inner.val
    }
    fn forget(self) {}
}

impl<const P: usize> Payload for FatCElem<P> {
    fn val(&self) -> u64 {
        self.inner.0
    }
    fn forget(self) {}
}

impl<const P: usize> Payload for &FatCElem<P> {
    fn val(&self) -> u64 {
        self.inner.0
    }
    fn forget(self) {}
}

/// Owning probe of large elements.
pub struct FatProbe<const P: usize>(pub ProbeCore);

impl<const P: usize> Iterator for FatProbe<P> {
    type Item = FatElem<P>;

    fn next(&mut self) -> Option<FatElem<P>> {
        self.0.step().map(|(v, _)| FatElem::new(v))
    }

    fn size_hint(&self) -> (usize, Option<usize>) {
        self.0.size_hint()
    }
}

/// Access to the payload of whatever the iterator under test yields.
pub trait Payload {
    fn val(&self) -> u64;
    /// records nothing, just makes sure no destructor runs
    fn forget(self);
}

impl Payload for Elem {
    fn val(&self) -> u64 {
        self.val
    }
    fn forget(self) {
        std::mem::forget(self)
    }
}

impl Payload for &Elem {
    fn val(&self) -> u64 {
        self.val
    }
    fn forget(self) {}
}

impl Payload for CElem {
    fn val(&self) -> u64 {
        self.0
    }
    fn forget(self) {}
}

impl Payload for &CElem {
    fn val(&self) -> u64 {
        self.0
    }
    fn forget(self) {}
}

impl Payload for usize {
    fn val(&self) -> u64 {
        *self as u64
    }
    fn forget(self) {}
}

// ---------------------------------------------------------------------------------------------

/// Scheduling point of a probe (no-op for non-virtual and aborted threads).
fn probe_point() {
    let t = rt::tid();
    if t == NO_TID || rt::silent() {
        return;
    }
    let prev = set_track(false);
    rt::point(t);
    set_track(prev);
}

pub struct ProbeCore {
    script: Vec<Entry>,
    pos: usize,
    produced: usize,
    hint: Hint,
}

impl ProbeCore {
    /// `script` should have been allocated with tracking off.
    pub fn new(script: Vec<Entry>, hint: Hint) -> Self {
        Self {
            script,
            pos: 0,
            produced: 0,
            hint,
        }
    }

    /// One scripted `next()`: two scheduling points. Returns (payload, index among the S entries).
    fn step(&mut self) -> Option<(u64, usize)> {
        probe_point();
        tlog!("src enter");
        let e = self.script.get(self.pos).copied();
        let call_no = self.pos;
        self.pos = self.pos.saturating_add(1);
        probe_point();
        // re-entrancy: this very `next()` asks the concurrent iterator that wraps it how much is left
        rt::reenter(call_no);
        match e {
            Some(Entry::S(v)) => {
                tlog!("src exit some {}", v);
                let i = self.produced;
                self.produced += 1;
                Some((v, i))
            }
            Some(Entry::N) | None => {
                tlog!("src exit none");
                None
            }
            Some(Entry::P) => {
                tlog!("src exit panic");
                set_track(false);
                std::panic::panic_any(ProbePanic);
            }
        }
    }

    fn size_hint(&self) -> (usize, Option<usize>) {
        // a read of the wrapped iterator by a virtual thread is an observable use of it (the crate only
        // calls `size_hint` while constructing the concurrent iterator, on the owner's thread)
        if rt::tid() != NO_TID && !rt::silent() {
            // a scheduling point of its own: another thread may be inside `next()` right now
            probe_point();
            tlog!("src hint");
        }
        match self.hint {
            Hint::Exact => {
                let k = self
                    .script
                    .iter()
                    .take_while(|e| matches!(e, Entry::S(_)))
                    .count()
                    .saturating_sub(self.produced);
                (k, Some(k))
            }
            Hint::Inexact => (0, Some(1_000_000)),
            Hint::MaxNone => (usize::MAX, None),
            Hint::Inverted => {
                let k = self
                    .script
                    .iter()
                    .take_while(|e| matches!(e, Entry::S(_)))
                    .count()
                    .saturating_sub(self.produced);
                // neither bound is the number of elements left
                (k + 2, Some(k.saturating_sub(1)))
            }
            Hint::PanicEnd => {
                let all = self
                    .script
                    .iter()
                    .take_while(|e| matches!(e, Entry::S(_)))
                    .count();
                if rt::tid() != NO_TID && !rt::silent() && self.produced >= all {
                    set_track(false);
                    std::panic::panic_any(ProbePanic);
                }
                (0, Some(1_000_000))
            }
            Hint::Upper => {
                let k = self
                    .script
                    .iter()
                    .take_while(|e| matches!(e, Entry::S(_)))
                    .count()
                    .saturating_sub(self.produced);
                (0, Some(k))
            }
            Hint::Unbounded => (0, None),
            Hint::Fixed(k) => {
                let k = k.saturating_sub(self.produced);
                (k, Some(k))
            }
        }
    }
}

/// Owning probe: yields fresh `Elem`s.
pub struct Probe(pub ProbeCore);

impl Iterator for Probe {
    type Item = Elem;

    fn next(&mut self) -> Option<Elem> {
        self.0.step().map(|(v, _)| Elem::new(v))
    }

    fn size_hint(&self) -> (usize, Option<usize>) {
        self.0.size_hint()
    }
}

/// Where the zero-sized probe keeps its script (a real stateless iterator would read a static, a file, a device, …).
pub static ZCORE: std::sync::atomic::AtomicPtr<ProbeCore> = std::sync::atomic::AtomicPtr::new(std::ptr::null_mut());

/// Owning probe whose *type* is zero-sized (`size_of::<ZstProbe>() == 0`): all its state lives outside the value.
pub struct ZstProbe;

impl ZstProbe {
    fn core(&self) -> &mut ProbeCore {
        // one virtual thread runs at a time; an overlap of two `next()` calls shows in the trace, it is no race in the harness
        unsafe { &mut *ZCORE.load(Ordering::Relaxed) }
    }
}

impl Iterator for ZstProbe {
    type Item = Elem;

    fn next(&mut self) -> Option<Elem> {
        self.core().step().map(|(v, _)| Elem::new(v))
    }

    fn size_hint(&self) -> (usize, Option<usize>) {
        self.core().size_hint()
    }
}

/// Owning probe of zero-sized elements (payload 0).
pub struct ZProbe(pub ProbeCore);

impl Iterator for ZProbe {
    type Item = ZElem;

    fn next(&mut self) -> Option<ZElem> {
        self.0.step().map(|_| ZElem)
    }

    fn size_hint(&self) -> (usize, Option<usize>) {
        self.0.size_hint()
    }
}

/// Borrowing probe: the i-th `S` entry yields a reference to `backing[len - 1 - i]` (the referents are stored in reverse order).
pub struct RefProbe<'a, T> {
    pub core: ProbeCore,
    pub backing: &'a [T],
}

impl<'a, T> Iterator for RefProbe<'a, T> {
    type Item = &'a T;

    fn next(&mut self) -> Option<&'a T> {
        let backing = self.backing;
        self.core.step().map(|(_, i)| &backing[backing.len() - 1 - i])
    }

    fn size_hint(&self) -> (usize, Option<usize>) {
        self.core.size_hint()
    }
}
