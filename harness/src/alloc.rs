//! Counting global allocator.
//!
//! Blocks allocated while the calling thread's TRACK flag is on are remembered in a fixed-capacity
//! open-addressing table (never allocates); freeing/reallocating a remembered block forgets it,
//! regardless of TRACK.

use std::alloc::{GlobalAlloc, Layout, System};
use std::cell::{Cell, UnsafeCell};
use std::sync::atomic::{AtomicBool, AtomicUsize, Ordering};

thread_local! {
    static TRACK: Cell<bool> = const { Cell::new(false) };
}

/// Sets the calling thread's TRACK flag, returns the previous value.
#[inline]
pub fn set_track(on: bool) -> bool {
    TRACK.try_with(|t| t.replace(on)).unwrap_or(false)
}

#[inline]
fn tracking() -> bool {
    TRACK.try_with(|t| t.get()).unwrap_or(false)
}

const CAP: usize = 1 << 14;
const EMPTY: usize = 0;
const TOMB: usize = 1;

struct Table {
    keys: [usize; CAP],
    sizes: [usize; CAP],
    used: usize, // slots that are not EMPTY (live + tombstones)
    blocks: usize,
    bytes: usize,
    overflow: bool,
}

struct Shared(UnsafeCell<Table>);
unsafe impl Sync for Shared {}

static TABLE: Shared = Shared(UnsafeCell::new(Table {
    keys: [EMPTY; CAP],
    sizes: [0; CAP],
    used: 0,
    blocks: 0,
    bytes: 0,
    overflow: false,
}));
static LOCK: AtomicBool = AtomicBool::new(false);
/// number of live tracked blocks (fast path for dealloc)
static NLIVE: AtomicUsize = AtomicUsize::new(0);

struct Guard;
impl Guard {
    #[inline]
    fn new() -> Self {
        while LOCK.swap(true, Ordering::Acquire) {
            std::hint::spin_loop();
        }
        Guard
    }
    #[inline]
    #[allow(clippy::mut_from_ref)]
    fn table(&self) -> &mut Table {
        unsafe { &mut *TABLE.0.get() }
    }
}
impl Drop for Guard {
    #[inline]
    fn drop(&mut self) {
        LOCK.store(false, Ordering::Release);
    }
}

#[inline]
fn hash(p: usize) -> usize {
    ((p >> 3).wrapping_mul(0x9E37_79B9_7F4A_7C15) >> 20) & (CAP - 1)
}

fn insert(p: usize, size: usize) {
    let g = Guard::new();
    let t = g.table();
    let mut i = hash(p);
    for _ in 0..CAP {
        let k = t.keys[i];
        if k == EMPTY || k == TOMB {
            if k == EMPTY {
                t.used += 1;
            }
            t.keys[i] = p;
            t.sizes[i] = size;
            t.blocks += 1;
            t.bytes += size;
            NLIVE.store(t.blocks, Ordering::Relaxed);
            return;
        }
        i = (i + 1) & (CAP - 1);
    }
    t.overflow = true;
}

fn remove(p: usize) -> bool {
    let g = Guard::new();
    let t = g.table();
    let mut i = hash(p);
    for _ in 0..CAP {
        let k = t.keys[i];
        if k == EMPTY {
            return false;
        }
        if k == p {
            t.keys[i] = TOMB;
            t.blocks -= 1;
            t.bytes -= t.sizes[i];
            NLIVE.store(t.blocks, Ordering::Relaxed);
            return true;
        }
        i = (i + 1) & (CAP - 1);
    }
    false
}

/// Forgets everything (start of a case).
pub fn reset() {
    let g = Guard::new();
    let t = g.table();
    if t.used > 0 {
        t.keys.iter_mut().for_each(|k| *k = EMPTY);
        t.used = 0;
    }
    t.blocks = 0;
    t.bytes = 0;
    t.overflow = false;
    NLIVE.store(0, Ordering::Relaxed);
}

/// (live bytes, live blocks, table overflowed)
pub fn live() -> (usize, usize, bool) {
    let g = Guard::new();
    let t = g.table();
    (t.bytes, t.blocks, t.overflow)
}

pub struct Counting;

unsafe impl GlobalAlloc for Counting {
    unsafe fn alloc(&self, l: Layout) -> *mut u8 {
        let p = System.alloc(l);
        if !p.is_null() && tracking() {
            insert(p as usize, l.size());
        }
        p
    }

    unsafe fn alloc_zeroed(&self, l: Layout) -> *mut u8 {
        let p = System.alloc_zeroed(l);
        if !p.is_null() && tracking() {
            insert(p as usize, l.size());
        }
        p
    }

    unsafe fn dealloc(&self, p: *mut u8, l: Layout) {
        if NLIVE.load(Ordering::Relaxed) > 0 {
            remove(p as usize);
        }
        System.dealloc(p, l)
    }

    unsafe fn realloc(&self, p: *mut u8, l: Layout, new_size: usize) -> *mut u8 {
        let was = NLIVE.load(Ordering::Relaxed) > 0 && remove(p as usize);
        let q = System.realloc(p, l, new_size);
        if q.is_null() {
            if was {
                insert(p as usize, l.size());
            }
        } else if was || tracking() {
            insert(q as usize, new_size);
        }
        q
    }
}
