//! Case execution: generic op interpreter, scheduler loop, owner phase, kind dispatch.

use crate::alloc::{self, set_track};
use crate::case::{Adapt, Case, Op, OpKind, Owner, Src, Take, NSLOTS};
use crate::elem::{CElem, Elem, Payload, Probe, ProbeCore, RefProbe, ZElem};
use crate::rt::{self, AbortToken, ClonePanic, ClosurePanic, DropPanic, ProbePanic};
use crate::tlog;
use orx_concurrent_iter::iter::atomic_iter::AtomicIter;
use orx_concurrent_iter::{
    Cloned, ConIterOfArray, ConIterOfIter, ConIterOfRange, ConIterOfSlice, ConIterOfVec,
    ConcurrentIter, ConcurrentIterable, Copied, HasMore, IntoCloned, IntoConcurrentIter,
    IntoCopied, IterIntoConcurrentIter, NextChunk,
};
use std::any::Any;
use std::fmt::Write as _;
use std::panic::{catch_unwind, AssertUnwindSafe};
use std::sync::OnceLock;

// ---------------------------------------------------------------------------------------------
// helpers

/// Runs harness-internal code with allocation tracking off.
fn untracked<R>(f: impl FnOnce() -> R) -> R {
    let prev = set_track(false);
    let r = f();
    set_track(prev);
    r
}

struct SendWrap<T>(T);
// SAFETY: values are handed over while exactly one thread runs (token passing through a mutex).
unsafe impl<T> Send for SendWrap<T> {}

pub fn classify(p: &(dyn Any + Send)) -> &'static str {
    if p.is::<ProbePanic>() {
        return "probe";
    }
    if p.is::<ClonePanic>() {
        return "clone";
    }
    if p.is::<ClosurePanic>() {
        return "closure";
    }
    if p.is::<DropPanic>() {
        return "drop";
    }
    let msg: &str = if let Some(s) = p.downcast_ref::<&'static str>() {
        s
    } else if let Some(s) = p.downcast_ref::<String>() {
        s.as_str()
    } else {
        return "other";
    };
    if msg.contains("overflow") {
        "overflow"
    } else if msg.contains("Chunk size must be positive") {
        "chunksize"
    } else if msg.contains("out of range") || msg.contains("out of bounds") || msg.contains("index")
    {
        "index"
    } else if msg.contains("assertion") {
        "assert"
    } else {
        "other"
    }
}

/// Kinds that can be cloned override this.
pub trait MaybeClone: Sized {
    fn try_clone(&self) -> Option<Self> {
        None
    }
    /// `Clone::clone_from`
    fn try_clone_from(&mut self, _source: &Self) {}
}

impl<'a, T: Send + Sync> MaybeClone for ConIterOfSlice<'a, T> {
    fn try_clone(&self) -> Option<Self> {
        Some(self.clone())
    }
    fn try_clone_from(&mut self, source: &Self) {
        self.clone_from(source)
    }
}
impl MaybeClone for ConIterOfRange<usize> {
    fn try_clone(&self) -> Option<Self> {
        Some(self.clone())
    }
    fn try_clone_from(&mut self, source: &Self) {
        self.clone_from(source)
    }
}
impl<T: Send + Sync> MaybeClone for ConIterOfVec<T> {}
impl<const N: usize, T: Send + Sync> MaybeClone for ConIterOfArray<N, T> {}
impl<T: Send + Sync, It: Iterator<Item = T>> MaybeClone for ConIterOfIter<T, It> {}
impl<'a, T: Send + Sync + Clone, A: AtomicIter<&'a T>> MaybeClone for Cloned<'a, T, A> {}
impl<'a, T: Send + Sync + Copy, A: AtomicIter<&'a T>> MaybeClone for Copied<'a, T, A> {}

fn counter_addr<I>(it: &I) -> usize
where
    I: ConcurrentIter + AtomicIter<<I as ConcurrentIter>::Item>,
{
    AtomicIter::counter(it) as *const orx_concurrent_iter::AtomicCounter as usize
}

/// Moves the iterator of slot 0 to another address (the last slot, which must be empty; back again when it is there) and
/// overwrites the bytes it occupied with zeros: what a `let moved = it;`, a `Box::new(it)` or a `vec.push(it)` does to a value.
/// Only called while no operation is in flight and nothing borrows the iterator (single-thread cases, no live buffered iterator).
fn relocate<I>(slots: &[OnceLock<I>]) -> bool
where
    I: ConcurrentIter + AtomicIter<<I as ConcurrentIter>::Item>,
{
    let back = rt::RELOCATED.load(std::sync::atomic::Ordering::Relaxed);
    let (from, to) = if back { (NSLOTS - 1, 0) } else { (0, NSLOTS - 1) };
    if slots[from].get().is_none() || slots[to].get().is_some() {
        return false;
    }
    let name = {
        let a = counter_addr(slots[from].get().expect("checked"));
        rt::loc_name(a)
    };
    // SAFETY (harness only): every byte of a `OnceLock` is interior-mutable; nobody else touches the two slots right now
    unsafe {
        let a = &slots[from] as *const OnceLock<I> as *mut OnceLock<I>;
        let b = &slots[to] as *const OnceLock<I> as *mut OnceLock<I>;
        let payload = slots[from].get().expect("checked") as *const I as usize;
        let off = payload - a as usize;
        std::ptr::swap(a, b);
        std::ptr::write_bytes((a as *mut u8).add(off), 0, std::mem::size_of::<I>());
    }
    rt::RELOCATED.store(!back, std::sync::atomic::Ordering::Relaxed);
    if let Some(n) = name {
        rt::register_loc(counter_addr(slots[to].get().expect("moved")), n);
    }
    true
}

/// `reenter`: what the wrapped iterator's `next()` does with the concurrent iterator around it (two length queries)
fn reenter_tramp<I>(p: usize)
where
    I: ConcurrentIter + AtomicIter<<I as ConcurrentIter>::Item>,
{
    let slots = unsafe { &*(p as *const Vec<OnceLock<I>>) };
    let prev = set_track(true);
    let more = match slot_of(slots, 0).has_more() {
        HasMore::Yes(n) => n as i128,
        HasMore::Maybe => -1,
        HasMore::No => 0,
    };
    let len = slot_of(slots, 0).try_get_len();
    set_track(false);
    tlog!("reenter more {} len {:?}", more, len);
    if rt::REENTER_SKIP.load(std::sync::atomic::Ordering::Relaxed) {
        set_track(true);
        slot_of(slots, 0).skip_to_end();
        set_track(false);
        tlog!("reenter skipped");
    }
    set_track(prev);
}

fn slot_of<I>(slots: &[OnceLock<I>], k: usize) -> &I {
    let k = if k == 0 && rt::RELOCATED.load(std::sync::atomic::Ordering::Relaxed) { NSLOTS - 1 } else { k };
    match slots.get(k).and_then(|s| s.get()) {
        Some(it) => it,
        None => {
            set_track(false);
            panic!("harness: empty slot");
        }
    }
}

/// Consumes up to `k` values of a chunk (recording and forgetting each one right after it is
/// pulled), drops the chunk iterator, and returns the `ret chunk …` line.
fn consume_chunk<T, V>(begin: usize, mut values: V, k: Take) -> String
where
    T: Payload,
    V: ExactSizeIterator<Item = T>,
{
    let a = values.len();
    // `ExactSizeIterator`: "the implementation of `Iterator::size_hint` must return the exact size of the iterator" (std's
    // adaptors compute their own `len()` from it: `chunk.values.take(2).len()` asserts `upper == Some(lower)`)
    let hint_ok = |v: &V| {
        let (lo, hi) = v.size_hint();
        if lo != v.len() || hi != Some(v.len()) {
            tlog!("hint-mismatch size_hint=({}, {:?}) len={}", lo, hi, v.len());
        }
    };
    hint_ok(&values);
    let mut got: Vec<u64> = untracked(Vec::new);
    if let Take::NextLast(kk) = k {
        // `kk` calls of `next()`, then `Iterator::last()` (an override in the crate is what runs): it consumes the iterator
        let mut pulled = 0usize;
        while pulled < kk {
            match values.next() {
                Some(x) => {
                    let v = x.val();
                    x.forget();
                    untracked(|| got.push(v));
                    pulled += 1;
                }
                None => break,
            }
        }
        hint_ok(&values);
        let left = values.len();
        let r = catch_unwind(AssertUnwindSafe(|| values.last()));
        match r {
            Ok(Some(x)) => {
                let v = x.val();
                x.forget();
                untracked(|| got.push(v));
            }
            Ok(None) => {}
            Err(p) => {
                log_taken(&got);
                untracked(|| drop(got));
                std::panic::resume_unwind(p);
            }
        }
        let _ = left;
        return untracked(|| {
            let mut s = format!("ret chunk {} {} {}", begin, a, 0);
            for v in &got {
                let _ = write!(s, " {}", v);
            }
            drop(got);
            s
        });
    }
    if let Take::NextForget(kk) = k {
        // `kk` calls of `next()`, then the chunk iterator is leaked: its destructor (if it has one) never runs
        let mut pulled = 0usize;
        while pulled < kk {
            match values.next() {
                Some(x) => {
                    let v = x.val();
                    x.forget();
                    untracked(|| got.push(v));
                    pulled += 1;
                }
                None => break,
            }
        }
        let l = values.len();
        std::mem::forget(values);
        return untracked(|| {
            let mut s = format!("ret chunk {} {} {}", begin, a, l);
            for v in &got {
                let _ = write!(s, " {}", v);
            }
            drop(got);
            s
        });
    }
    if matches!(k, Take::Fold | Take::Count) {
        // `Iterator::fold` / `Iterator::count` take the chunk iterator by value (an override of either in the crate is
        // what runs); whatever they leave unconsumed is dropped by the iterator inside the call
        let r = catch_unwind(AssertUnwindSafe(|| {
            if let Take::Fold = k {
                // the closure receives every element
                values.fold((), |_, x| {
                    let v = x.val();
                    x.forget();
                    untracked(|| got.push(v));
                });
            } else {
                // the iterator's consumer discards every element itself
                let _ = values.count();
            }
        }));
        if let Err(p) = r {
            log_taken(&got);
            untracked(|| drop(got));
            std::panic::resume_unwind(p);
        }
        return untracked(|| {
            let mut s = format!("ret chunk {} {} {}", begin, a, 0);
            for v in &got {
                let _ = write!(s, " {}", v);
            }
            drop(got);
            s
        });
    } else if let Take::Nth(j) = k {
        // one call of `Iterator::nth`: the iterator discards `j` elements itself and hands out the next
        if let Some(x) = values.nth(j) {
            let v = x.val();
            x.forget();
            untracked(|| got.push(v));
        }
    } else if let Take::NextNth(kk, j) = k {
        // `kk` calls of `next()`, then one `nth(j)` on what is left of the chunk
        let mut pulled = 0usize;
        let mut ended = false;
        while pulled < kk {
            match values.next() {
                Some(x) => {
                    let v = x.val();
                    x.forget();
                    untracked(|| got.push(v));
                    pulled += 1;
                }
                None => {
                    ended = true;
                    break;
                }
            }
        }
        if !ended {
            if let Some(x) = values.nth(j) {
                let v = x.val();
                x.forget();
                untracked(|| got.push(v));
            }
        }
    } else {
        let lim = match k {
            Take::First(k) => Some(k),
            _ => None,
        };
        let mut pulled = 0usize;
        while lim.map_or(true, |k| pulled < k) {
            match values.next() {
                Some(x) => {
                    let v = x.val();
                    x.forget();
                    untracked(|| got.push(v));
                    pulled += 1;
                }
                None => break,
            }
        }
    }
    hint_ok(&values);
    let l = values.len();
    // a destructor of the chunk's remainder may panic (fault injection): what the caller took before is still the
    // caller's, so it is recorded (`taken …`) before the panic goes on
    if let Err(p) = catch_unwind(AssertUnwindSafe(move || drop(values))) {
        log_taken(&got);
        untracked(|| drop(got));
        std::panic::resume_unwind(p);
    }
    untracked(|| {
        let mut s = format!("ret chunk {} {} {}", begin, a, l);
        for v in &got {
            let _ = write!(s, " {}", v);
        }
        drop(got);
        s
    })
}

/// `taken <v1> … <vj>`: elements a caller had received from a chunk / remainder whose drop then panicked.
fn log_taken(got: &[u64]) {
    if got.is_empty() {
        return;
    }
    let prev = set_track(false);
    let mut s = "taken".to_string();
    for v in got {
        let _ = write!(s, " {}", v);
    }
    tlog!("{}", s);
    drop(s);
    set_track(prev);
}

fn closure_panic(count: &mut u64, panic_at: Option<u64>) {
    let i = *count;
    *count += 1;
    if panic_at == Some(i) {
        set_track(false);
        std::panic::panic_any(ClosurePanic);
    }
}

/// All ops except the buffered-iterator ones. Returns the `ret …` line.
fn exec_simple<I>(op: &Op, slots: &[OnceLock<I>]) -> String
where
    I: ConcurrentIter + AtomicIter<<I as ConcurrentIter>::Item> + MaybeClone,
    <I as ConcurrentIter>::Item: Payload,
{
    let it = slot_of(slots, op.slot);
    match &op.kind {
        OpKind::Next => match it.next_id_and_value() {
            Some(n) => {
                let (i, v) = (n.idx, n.value.val());
                n.value.forget();
                untracked(|| format!("ret item {} {}", i, v))
            }
            None => untracked(|| "ret end".to_string()),
        },
        OpKind::NextV => match it.next() {
            Some(x) => {
                let v = x.val();
                x.forget();
                untracked(|| format!("ret value {}", v))
            }
            None => untracked(|| "ret end".to_string()),
        },
        OpKind::Chunk(n, k) => match it.next_chunk(*n) {
            Some(c) => {
                let NextChunk { begin_idx, values } = c;
                consume_chunk(begin_idx, values, *k)
            }
            None => untracked(|| "ret end".to_string()),
        },
        OpKind::ForEach(n, p) => {
            let mut count = 0u64;
            it.for_each(*n, |x| {
                tlog!("visit - {}", x.val());
                x.forget();
                closure_panic(&mut count, *p);
                if *p == Some(crate::case::CLOSURE_PULLS) {
                    // the user's function works on a second element it pulls itself
                    if let Some(y) = it.next() {
                        tlog!("visit - {}", y.val());
                        y.forget();
                    }
                }
            });
            untracked(|| "ret done".to_string())
        }
        OpKind::EnumForEach(n, p) => {
            let mut count = 0u64;
            it.enumerate_for_each(*n, |i, x| {
                tlog!("visit {} {}", i, x.val());
                x.forget();
                closure_panic(&mut count, *p);
                if *p == Some(crate::case::CLOSURE_PULLS) {
                    if let Some(y) = it.next_id_and_value() {
                        tlog!("visit {} {}", y.idx, y.value.val());
                        y.value.forget();
                    }
                }
            });
            untracked(|| "ret done".to_string())
        }
        OpKind::Fold(n) => {
            let sum = it.fold(*n, 0u64, |a, x| {
                let v = x.val();
                tlog!("visit - {}", v);
                x.forget();
                a.wrapping_add(v)
            });
            untracked(|| format!("ret fold {}", sum))
        }
        OpKind::Values => {
            let view = it.values();
            // what the view announces before it is used must be true of what it then yields (others may pull meanwhile): std's
            // default `(0, None)` always is; anything else is logged and checked
            let (lo, hi) = view.size_hint();
            let mut yielded = 0usize;
            for x in view {
                tlog!("visit - {}", x.val());
                x.forget();
                yielded += 1;
            }
            if (lo, hi) != (0, None) && (yielded < lo || hi.map_or(false, |h| yielded > h)) {
                tlog!("vhint-broken announced ({}, {:?}) yielded {}", lo, hi, yielded);
            }
            untracked(|| "ret done".to_string())
        }
        OpKind::IdsValues => {
            let view = it.ids_and_values();
            let (lo, hi) = view.size_hint();
            let mut yielded = 0usize;
            for (i, x) in view {
                tlog!("visit {} {}", i, x.val());
                x.forget();
                yielded += 1;
            }
            if (lo, hi) != (0, None) && (yielded < lo || hi.map_or(false, |h| yielded > h)) {
                tlog!("vhint-broken announced ({}, {:?}) yielded {}", lo, hi, yielded);
            }
            untracked(|| "ret done".to_string())
        }
        OpKind::ValuesNth(k) => match it.values().nth(*k) {
            Some(x) => {
                let v = x.val();
                x.forget();
                untracked(|| format!("ret value {}", v))
            }
            None => untracked(|| "ret end".to_string()),
        },
        OpKind::IdsValuesNth(k) => match it.ids_and_values().nth(*k) {
            Some((i, x)) => {
                let v = x.val();
                x.forget();
                untracked(|| format!("ret item {} {}", i, v))
            }
            None => untracked(|| "ret end".to_string()),
        },
        OpKind::Skip => {
            if rt::RAWSKIP.load(std::sync::atomic::Ordering::Relaxed) {
                AtomicIter::early_exit(it);
            } else {
                it.skip_to_end();
            }
            untracked(|| "ret unit".to_string())
        }
        OpKind::Len => match it.try_get_len() {
            Some(n) => untracked(|| format!("ret len {}", n)),
            None => untracked(|| "ret len none".to_string()),
        },
        OpKind::HasMore => match it.has_more() {
            HasMore::Yes(n) => untracked(|| format!("ret more yes {}", n)),
            HasMore::Maybe => untracked(|| "ret more maybe".to_string()),
            HasMore::No => untracked(|| "ret more no".to_string()),
        },
        OpKind::Get(i) => match AtomicIter::get(it, *i) {
            Some(x) => {
                let v = x.val();
                x.forget();
                untracked(|| format!("ret got {}", v))
            }
            None => untracked(|| "ret got none".to_string()),
        },
        OpKind::Clone(j) => {
            let cloned = if rt::CLONEFROM.load(std::sync::atomic::Ordering::Relaxed) {
                // the target: an iterator over the same source that is ahead of `it` (skipped to its end), made silently
                let tgt = rt::with_silent(|| {
                    let t = it.try_clone();
                    if let Some(t) = &t {
                        t.skip_to_end();
                    }
                    t
                });
                tgt.map(|mut t| {
                    t.try_clone_from(it);
                    t
                })
            } else {
                it.try_clone()
            };
            let c = match cloned {
                Some(c) => c,
                None => {
                    set_track(false);
                    panic!("harness: kind cannot be cloned");
                }
            };
            untracked(|| {
                if slots[*j].set(c).is_err() {
                    panic!("harness: slot already filled");
                }
                let a = counter_addr(slot_of(slots, *j));
                rt::register_loc(a, format!("ctr{}", j));
                "ret unit".to_string()
            })
        }
        OpKind::BufNew(_) | OpKind::BufNext(_) | OpKind::BufDrop => {
            unreachable!("buffer ops are interpreted by the thread body")
        }
    }
}

// ---------------------------------------------------------------------------------------------
// the scheduler (FORMAT.md section 2)

struct SchedOutcome {
    steps: u64,
    stuck: bool,
}

/// schedule entries from here on encode a wait window: `WAIT_BASE + 16 * ms + thread`
const WAIT_BASE: usize = 1_000_000;

fn schedule(case: &Case) -> SchedOutcome {
    let nt = case.threads.len();
    let mut finished: Vec<bool> = case.threads.iter().map(|ops| ops.is_empty()).collect();
    let frozen: Vec<bool> = (0..nt).map(|t| case.frozen.contains(&t)).collect();
    let mut sched = case.sched.iter().copied();
    let mut rr = 0usize;
    let mut steps = 0u64;
    let mut streak = 0usize;
    let mut last: Vec<(usize, String, u64)> = Vec::new();
    let limit = 4 * nt + 8;
    let mut stuck = false;

    loop {
        if finished.iter().all(|f| *f) {
            break;
        }
        // explicit prefix
        let mut choice: Option<(usize, bool)> = None;
        for t in sched.by_ref() {
            if t >= WAIT_BASE {
                // a wait window `w<ms>:<t>`: thread t alone is scheduled for at least <ms> milliseconds of wall-clock time (or until
                // it finishes) -- a thread that waits a long time for another one to move; its loads are counted, not logged
                let (ms, wt) = (((t - WAIT_BASE) / 16) as u64, (t - WAIT_BASE) % 16);
                if wt < nt && !finished[wt] {
                    let t0 = std::time::Instant::now();
                    rt::QUIET_LOADS.store(true, std::sync::atomic::Ordering::Relaxed);
                    *rt::FREE_UNTIL.lock().unwrap_or_else(|e| e.into_inner()) = Some(t0 + std::time::Duration::from_millis(ms));
                    rt::FREE_RUN.store(wt, std::sync::atomic::Ordering::Relaxed);
                    while t0.elapsed().as_millis() < ms as u128 {
                        let r = rt::grant_and_wait(wt);
                        steps += 1;
                        if r.finished {
                            finished[wt] = true;
                            break;
                        }
                    }
                    rt::FREE_RUN.store(usize::MAX, std::sync::atomic::Ordering::Relaxed);
                    *rt::FREE_UNTIL.lock().unwrap_or_else(|e| e.into_inner()) = None;
                    rt::QUIET_LOADS.store(false, std::sync::atomic::Ordering::Relaxed);
                    last.clear();
                    streak = 0;
                }
                continue;
            }
            if t < nt && !finished[t] {
                choice = Some((t, true));
                break;
            }
        }
        if choice.is_none() {
            let eligible = |t: usize| !finished[t] && !frozen[t];
            let pick = (rr..nt)
                .find(|t| eligible(*t))
                .or_else(|| (0..nt).find(|t| eligible(*t)));
            match pick {
                Some(t) => {
                    rr = t + 1;
                    choice = Some((t, false));
                }
                None => break,
            }
        }
        let (t, explicit) = choice.expect("set above");
        let r = rt::grant_and_wait(t);
        steps += 1;
        if r.finished {
            finished[t] = true;
        }
        // stuck rule
        match (r.lines, r.load) {
            (1, Some((loc, v))) => {
                let entry = last.iter_mut().find(|(tt, l, _)| *tt == t && *l == loc);
                match entry {
                    Some(e) if e.2 == v => {
                        if !explicit {
                            streak += 1;
                        }
                    }
                    Some(e) => {
                        e.2 = v;
                        streak = 0;
                    }
                    None => {
                        last.push((t, loc, v));
                        streak = 0;
                    }
                }
            }
            _ => {
                last.clear();
                streak = 0;
            }
        }
        if streak > limit {
            stuck = true;
            break;
        }
    }
    SchedOutcome { steps, stuck }
}

struct OnDrop<F: FnMut()>(F);
impl<F: FnMut()> Drop for OnDrop<F> {
    fn drop(&mut self) {
        (self.0)()
    }
}
struct OuterUnwind;

/// Runs `f` — when `yes` — inside a destructor while the thread is unwinding from an unrelated panic
/// (`std::thread::panicking()` is true for the whole call); `f` catches its own panics.
fn while_unwinding<R>(yes: bool, f: impl FnOnce() -> R) -> R {
    if !yes {
        return f();
    }
    let mut out = None;
    let mut f = Some(f);
    let _ = catch_unwind(AssertUnwindSafe(|| {
        let _g = OnDrop(|| {
            if let Some(f) = f.take() {
                out = Some(f());
            }
        });
        std::panic::resume_unwind(Box::new(OuterUnwind));
    }));
    out.expect("the destructor ran")
}

// ---------------------------------------------------------------------------------------------
// one case, generic over the iterator type

fn run_generic<I>(case: &Case, iter_kind: bool, mk: &mut dyn FnMut() -> I)
where
    I: ConcurrentIter + AtomicIter<<I as ConcurrentIter>::Item> + MaybeClone,
    <I as ConcurrentIter>::Item: Payload,
{
    let nt = case.threads.len();
    let src_len = match &case.src {
        Src::Slice(v) | Src::VecRef(v) | Src::ArrRef(v) | Src::Vec(v) | Src::Array(v) => v.len() as u64,
        Src::Iter(e, _) | Src::IterRef(e, _) => e.len() as u64,
        Src::Range(..) => 0,
    };
    rt::CLONEPOINT.store(case.clonepoint, std::sync::atomic::Ordering::Relaxed);
    rt::RAWSKIP.store(case.rawskip, std::sync::atomic::Ordering::Relaxed);
    rt::CLONEFROM.store(case.clonefrom, std::sync::atomic::Ordering::Relaxed);
    rt::RELOCATED.store(false, std::sync::atomic::Ordering::Relaxed);
    rt::DROPWAIT_VAL.store(case.dropwait.map_or(u64::MAX, |d| d.0), std::sync::atomic::Ordering::Relaxed);
    rt::DROPWAIT_TID.store(case.dropwait.map_or(usize::MAX, |d| d.1), std::sync::atomic::Ordering::Relaxed);
    let reloc_at = if nt == 1 { case.relocate } else { None };
    rt::begin_case(nt, iter_kind, case.clonepanic, case.droppanic, src_len);

    let mut slots: Vec<OnceLock<I>> = (0..NSLOTS).map(|_| OnceLock::new()).collect();
    for (k, slot) in slots.iter().enumerate().take(case.iters) {
        set_track(true);
        let it = mk();
        set_track(false);
        if slot.set(it).is_err() {
            unreachable!("fresh slot");
        }
        let a = counter_addr(slot_of(&slots, k));
        let name = if iter_kind {
            "R".to_string()
        } else if k == 0 {
            "ctr".to_string()
        } else {
            format!("ctr{}", k)
        };
        rt::register_loc(a, name);
    }

    rt::REENTER_SKIP.store(case.reenter_skip, std::sync::atomic::Ordering::Relaxed);
    for (t, ops) in case.threads.iter().enumerate() {
        if ops.is_empty() {
            rt::mark_finished(t);
        }
    }
    rt::set_reenter(case.reenter, &slots as *const Vec<OnceLock<I>> as usize, reenter_tramp::<I>);
    let (bufs, outcome) = {
        let slots = &slots;
        std::thread::scope(|s| {
            let mut handles = Vec::new();
            for (t, ops) in case.threads.iter().enumerate() {
                if ops.is_empty() {
                    continue;
                }
                let in_panic = case.inpanic.contains(&t);
                let h = s.spawn(move || {
                    rt::thread_enter(t);
                    let mut buf = None;
                    let mut first = true;
                    let mut aborted = false;
                    for (opi, op) in ops.iter().enumerate() {
                        if t == 0 && reloc_at == Some(opi) && buf.is_none() {
                            relocate(slots);
                        }
                        let granted = rt::wait_grant(t, !first);
                        first = false;
                        if !granted {
                            rt::mark_silent();
                            aborted = true;
                            break;
                        }
                        tlog!("call {}", op.text);
                        let res = while_unwinding(in_panic, || catch_unwind(AssertUnwindSafe(|| {
                            set_track(true);
                            let line = match &op.kind {
                                OpKind::BufNew(n) => {
                                    let nb = slot_of(slots, op.slot).buffered_iter(*n);
                                    buf = Some(nb);
                                    untracked(|| "ret unit".to_string())
                                }
                                OpKind::BufNext(k) => match buf.as_mut() {
                                    None => {
                                        set_track(false);
                                        panic!("harness: no buffer");
                                    }
                                    Some(b) => match b.next() {
                                        Some(c) => {
                                            let NextChunk { begin_idx, values } = c;
                                            consume_chunk(begin_idx, values, *k)
                                        }
                                        None => untracked(|| "ret end".to_string()),
                                    },
                                },
                                OpKind::BufDrop => {
                                    buf = None;
                                    untracked(|| "ret unit".to_string())
                                }
                                _ => exec_simple(op, slots),
                            };
                            set_track(false);
                            line
                        })));
                        set_track(false);
                        match res {
                            Ok(line) => tlog!("{}", line),
                            Err(p) => {
                                if p.is::<AbortToken>() {
                                    aborted = true;
                                } else {
                                    tlog!("panic {}", classify(&*p));
                                }
                                drop(p);
                                break;
                            }
                        }
                    }
                    if !aborted {
                        rt::finish(t);
                    }
                    SendWrap(buf)
                });
                handles.push(h);
            }
            rt::wait_ready(handles.len());
            let outcome = schedule(case);
            rt::abort_all();
            let bufs: Vec<_> = handles
                .into_iter()
                .map(|h| h.join().expect("virtual thread died"))
                .collect();
            (bufs, outcome)
        })
    };

    rt::clear_reenter();
    // owner phase -----------------------------------------------------------------------------
    set_track(true);
    for b in bufs {
        let r = catch_unwind(AssertUnwindSafe(move || drop(b)));
        if let Err(p) = r {
            untracked(|| tlog!("panic {}", classify(&*p)));
        }
    }
    if rt::RELOCATED.load(std::sync::atomic::Ordering::Relaxed) {
        // the owner's operation finds the iterator in slot 0: one more move
        set_track(false);
        relocate(&slots);
        set_track(true);
    }
    {
        let r = catch_unwind(AssertUnwindSafe(|| slots.truncate(1)));
        if let Err(p) = r {
            untracked(|| tlog!("panic {}", classify(&*p)));
        }
    }
    let owner = case.owner;
    let res = catch_unwind(AssertUnwindSafe(|| match owner {
        Owner::Drop => {
            slots.clear();
            untracked(|| "ret unit".to_string())
        }
        Owner::IntoSeq(k) => {
            let it = slots
                .pop()
                .and_then(|s| s.into_inner())
                .expect("slot 0 is always filled");
            let mut seq = it.into_seq_iter();
            let mut got: Vec<u64> = untracked(Vec::new);
            let mut pulled = 0usize;
            while k.map_or(true, |k| pulled < k) {
                match seq.next() {
                    Some(x) => {
                        let v = x.val();
                        x.forget();
                        untracked(|| got.push(v));
                        pulled += 1;
                        // a remainder this long is never legitimate in a case file (sources have at most a few
                        // thousand elements, except ranges, whose cases never ask for the whole remainder)
                        if pulled > 1_000_000 {
                            rt::runaway();
                        }
                    }
                    None => break,
                }
            }
            if let Err(p) = catch_unwind(AssertUnwindSafe(move || drop(seq))) {
                log_taken(&got);
                untracked(|| drop(got));
                std::panic::resume_unwind(p);
            }
            untracked(|| {
                let mut s = "ret seq".to_string();
                for v in &got {
                    let _ = write!(s, " {}", v);
                }
                drop(got);
                s
            })
        }
    }));
    set_track(false);
    match res {
        Ok(line) => tlog!("{}", line),
        Err(p) => tlog!("panic {}", classify(&*p)),
    }
    // anything left in `slots` after a panic
    set_track(true);
    let _ = catch_unwind(AssertUnwindSafe(|| slots.clear()));
    set_track(false);

    let (bytes, blocks, overflow) = alloc::live();
    if overflow {
        eprintln!(
            "orx-harness: case {}: allocation table overflowed, live/blocks are lower bounds",
            case.id
        );
    }
    rt::write_raw(&format!(
        "fin live={} blocks={} stuck={} steps={}\n",
        bytes,
        blocks,
        if outcome.stuck { 1 } else { 0 },
        outcome.steps
    ));
    rt::end_case();
    drop(slots);
}

// ---------------------------------------------------------------------------------------------
// kind dispatch

fn to_arr<T, const N: usize>(v: Vec<T>) -> [T; N] {
    match v.try_into() {
        Ok(a) => a,
        Err(_) => unreachable!("length checked"),
    }
}

macro_rules! with_array {
    ($vec:expr, $arr:ident, $body:block) => {{
        let v = $vec;
        match v.len() {
            0 => {
                let $arr: [_; 0] = to_arr(v);
                $body
            }
            1 => {
                let $arr: [_; 1] = to_arr(v);
                $body
            }
            2 => {
                let $arr: [_; 2] = to_arr(v);
                $body
            }
            3 => {
                let $arr: [_; 3] = to_arr(v);
                $body
            }
            4 => {
                let $arr: [_; 4] = to_arr(v);
                $body
            }
            5 => {
                let $arr: [_; 5] = to_arr(v);
                $body
            }
            6 => {
                let $arr: [_; 6] = to_arr(v);
                $body
            }
            7 => {
                let $arr: [_; 7] = to_arr(v);
                $body
            }
            8 => {
                let $arr: [_; 8] = to_arr(v);
                $body
            }
            288 => {
                // one large array (more than 4 KiB of elements)
                let $arr: [_; 288] = to_arr(v);
                $body
            }
            _ => unreachable!("parser limits arrays to 8 (and 288)"),
        }
    }};
}

fn elems(vals: &[u64]) -> Vec<Elem> {
    elems_spare(vals, 0)
}

/// the elements in a vector with `spare` elements of unused capacity
fn elems_spare(vals: &[u64], spare: usize) -> Vec<Elem> {
    let mut v = Vec::with_capacity(vals.len() + spare);
    for x in vals {
        v.push(Elem::new(*x));
    }
    v
}

fn zelems(vals: &[u64]) -> Vec<ZElem> {
    let mut v = Vec::with_capacity(vals.len());
    for _ in vals {
        v.push(ZElem);
    }
    v
}

fn celems(vals: &[u64]) -> Vec<CElem> {
    vals.iter().map(|x| CElem(*x)).collect()
}

/// the referents of a borrowing probe, stored in *reverse* order: consecutive elements of the iteration are not at ascending
/// adjacent addresses (an iterator of references need not walk a slice)
fn script_vals_rev(script: &[crate::case::Entry]) -> Vec<u64> {
    let mut v = script_vals(script);
    v.reverse();
    v
}

fn script_vals(script: &[crate::case::Entry]) -> Vec<u64> {
    script
        .iter()
        .filter_map(|e| match e {
            crate::case::Entry::S(v) => Some(*v),
            _ => None,
        })
        .collect()
}

/// large elements (`fat`): `P` bytes of padding behind an `Elem` (16 bytes), `Q` behind a `CElem` (8 bytes)
fn run_fat<const P: usize, const Q: usize>(case: &Case) {
    use crate::elem::{FatCElem, FatElem, FatProbe};
    let fat = |vals: &[u64]| -> Vec<FatElem<P>> {
        let mut v = Vec::with_capacity(vals.len());
        for x in vals {
            v.push(FatElem::<P>::new(*x));
        }
        v
    };
    match (&case.src, case.adapt) {
        (Src::Slice(vals), Adapt::None) => {
            let b = fat(vals);
            run_generic(case, false, &mut || IntoConcurrentIter::into_con_iter(b.as_slice()));
        }
        (Src::Slice(vals), Adapt::Cloned) => {
            let b = fat(vals);
            run_generic(case, false, &mut || IntoConcurrentIter::into_con_iter(b.as_slice()).cloned());
        }
        (Src::Slice(vals), Adapt::Copied) => {
            let b: Vec<FatCElem<Q>> = vals.iter().map(|x| FatCElem { inner: CElem(*x), pad: [0u8; Q] }).collect();
            run_generic(case, false, &mut || IntoConcurrentIter::into_con_iter(b.as_slice()).copied());
        }
        (Src::Vec(vals), _) => {
            let mut once = Some(vals);
            run_generic(case, false, &mut || {
                let vals = once.take().expect("vec kinds have one slot");
                IntoConcurrentIter::into_con_iter(fat(vals))
            });
        }
        (Src::Array(vals), _) if vals.len() <= 8 && P < 4096 => with_array!(fat(vals), arr, {
            let mut once = Some(arr);
            run_generic(case, false, &mut || {
                let arr = once.take().expect("array kinds have one slot");
                IntoConcurrentIter::into_con_iter(arr)
            });
        }),
        (Src::Iter(script, hint), _) => {
            let mut once = Some(FatProbe::<P>(ProbeCore::new(script.clone(), *hint)));
            run_generic(case, true, &mut || {
                let p = once.take().expect("iter kinds have one slot");
                IterIntoConcurrentIter::into_con_iter(p)
            });
        }
        _ => {
            eprintln!("orx-harness: case {}: fat applies to slice (none/cloned/copied), vec, array (128 only), iter", case.id);
            std::process::exit(2);
        }
    }
}

/// Runs one case; the trace block (without the `case` line) is written to the out file.
pub fn run_case(case: &Case) {
    if case.fat == 128 {
        return run_fat::<112, 120>(case);
    }
    if case.fat == 2048 {
        return run_fat::<2032, 2040>(case);
    }
    if case.fat == 65536 {
        return run_fat::<65520, 65528>(case);
    }
    if case.pod {
        // `Copy` elements without drop glue, consumed (`needs_drop::<T>() == false`)
        match &case.src {
            Src::Vec(vals) => {
                let mut once = Some(vals);
                let spare = case.spare;
                run_generic(case, false, &mut || {
                    let vals = once.take().expect("vec kinds have one slot");
                    let mut v = Vec::with_capacity(vals.len() + spare);
                    v.extend(vals.iter().map(|x| CElem(*x)));
                    IntoConcurrentIter::into_con_iter(v)
                });
            }
            Src::Array(vals) => with_array!(celems(vals), arr, {
                let mut once = Some(arr);
                run_generic(case, false, &mut || {
                    let arr = once.take().expect("array kinds have one slot");
                    IntoConcurrentIter::into_con_iter(arr)
                });
            }),
            _ => {
                eprintln!("orx-harness: case {}: pod applies to vec, array only", case.id);
                std::process::exit(2);
            }
        }
        return;
    }
    if case.zst {
        // zero-sized elements: pointer arithmetic on them never moves (`ptr.add(i) == ptr`)
        match &case.src {
            Src::Slice(vals) => {
                let b = zelems(vals);
                run_generic(case, false, &mut || {
                    IntoConcurrentIter::into_con_iter(b.as_slice())
                });
            }
            Src::Vec(vals) => {
                let mut once = Some(vals);
                run_generic(case, false, &mut || {
                    let vals = once.take().expect("vec kinds have one slot");
                    IntoConcurrentIter::into_con_iter(zelems(vals))
                });
            }
            Src::Array(vals) => with_array!(zelems(vals), arr, {
                let mut once = Some(arr);
                run_generic(case, false, &mut || {
                    let arr = once.take().expect("array kinds have one slot");
                    IntoConcurrentIter::into_con_iter(arr)
                });
            }),
            Src::Iter(script, hint) => {
                let mut once = Some(crate::elem::ZProbe(ProbeCore::new(script.clone(), *hint)));
                run_generic(case, true, &mut || {
                    let p = once.take().expect("iter kinds have one slot");
                    IterIntoConcurrentIter::into_con_iter(p)
                });
            }
            _ => {
                eprintln!("orx-harness: case {}: zst applies to slice, vec, array, iter only", case.id);
                std::process::exit(2);
            }
        }
        return;
    }
    match (&case.src, case.adapt) {
        // ---- slice
        (Src::Slice(vals), Adapt::None) if case.viafrom => {
            let b = elems(vals);
            run_generic(case, false, &mut || ConIterOfSlice::from(b.as_slice()));
        }
        (Src::Vec(vals), _) if case.viafrom => {
            let mut once = Some(vals);
            let spare = case.spare;
            run_generic(case, false, &mut || {
                let vals = once.take().expect("vec kinds have one slot");
                ConIterOfVec::from(elems_spare(vals, spare))
            });
        }
        (Src::Array(vals), _) if case.viafrom => with_array!(elems(vals), arr, {
            let mut once = Some(arr);
            run_generic(case, false, &mut || {
                let arr = once.take().expect("array kinds have one slot");
                ConIterOfArray::from(arr)
            });
        }),
        (Src::Range(s, e), _) if case.viafrom => {
            let (s, e) = (*s, *e);
            run_generic(case, false, &mut || ConIterOfRange::from(s..e));
        }
        (Src::Iter(script, hint), _) if case.viafrom => {
            let mut once = Some(Probe(ProbeCore::new(script.clone(), *hint)));
            run_generic(case, true, &mut || {
                let p = once.take().expect("iter kinds have one slot");
                ConIterOfIter::from(p)
            });
        }
        (Src::Slice(vals), Adapt::None) => {
            let b = elems(vals);
            run_generic(case, false, &mut || {
                IntoConcurrentIter::into_con_iter(b.as_slice())
            });
        }
        (Src::Slice(vals), Adapt::Cloned) => {
            let b = elems(vals);
            run_generic(case, false, &mut || {
                IntoConcurrentIter::into_con_iter(b.as_slice()).cloned()
            });
        }
        (Src::Slice(vals), Adapt::Copied) => {
            let b = celems(vals);
            run_generic(case, false, &mut || {
                IntoConcurrentIter::into_con_iter(b.as_slice()).copied()
            });
        }
        // ---- vecref
        (Src::VecRef(vals), Adapt::None) => {
            let b = elems(vals);
            run_generic(case, false, &mut || b.con_iter());
        }
        (Src::VecRef(vals), Adapt::Cloned) => {
            let b = elems(vals);
            run_generic(case, false, &mut || b.con_iter().cloned());
        }
        (Src::VecRef(vals), Adapt::Copied) => {
            let b = celems(vals);
            run_generic(case, false, &mut || b.con_iter().copied());
        }
        // ---- arrref
        (Src::ArrRef(vals), Adapt::None) => with_array!(elems(vals), arr, {
            run_generic(case, false, &mut || arr.con_iter());
        }),
        (Src::ArrRef(vals), Adapt::Cloned) => with_array!(elems(vals), arr, {
            run_generic(case, false, &mut || arr.con_iter().cloned());
        }),
        (Src::ArrRef(vals), Adapt::Copied) => with_array!(celems(vals), arr, {
            run_generic(case, false, &mut || arr.con_iter().copied());
        }),
        // ---- consuming kinds
        (Src::Vec(vals), _) => {
            let mut once = Some(vals);
            let spare = case.spare;
            run_generic(case, false, &mut || {
                let vals = once.take().expect("vec kinds have one slot");
                IntoConcurrentIter::into_con_iter(elems_spare(vals, spare))
            });
        }
        (Src::Array(vals), _) => with_array!(elems(vals), arr, {
            let mut once = Some(arr);
            run_generic(case, false, &mut || {
                let arr = once.take().expect("array kinds have one slot");
                IntoConcurrentIter::into_con_iter(arr)
            });
        }),
        (Src::Range(s, e), _) => {
            let (s, e) = (*s, *e);
            run_generic(case, false, &mut || IntoConcurrentIter::into_con_iter(s..e));
        }
        (Src::Iter(script, hint), _) if case.nested => {
            // two wrappers nested: the outer concurrent iterator wraps the sequential view `values()` of an inner one over the probe
            let inner = IterIntoConcurrentIter::into_con_iter(Probe(ProbeCore::new(script.clone(), *hint)));
            {
                let mut once = Some(inner.values());
                run_generic(case, true, &mut || {
                    let v = once.take().expect("iter kinds have one slot");
                    ConIterOfIter::new(v)
                });
            }
            set_track(true);
            drop(inner);
            set_track(false);
        }
        (Src::Iter(script, hint), _) if case.zstiter => {
            // a wrapped iterator of a zero-sized *type*: its state is outside the value
            let core = Box::into_raw(Box::new(ProbeCore::new(script.clone(), *hint)));
            crate::elem::ZCORE.store(core, std::sync::atomic::Ordering::Relaxed);
            let mut once = Some(crate::elem::ZstProbe);
            run_generic(case, true, &mut || {
                let p = once.take().expect("iter kinds have one slot");
                IterIntoConcurrentIter::into_con_iter(p)
            });
            crate::elem::ZCORE.store(std::ptr::null_mut(), std::sync::atomic::Ordering::Relaxed);
            drop(unsafe { Box::from_raw(core) });
        }
        (Src::Iter(script, hint), _) => {
            let mut once = Some(Probe(ProbeCore::new(script.clone(), *hint)));
            run_generic(case, true, &mut || {
                let p = once.take().expect("iter kinds have one slot");
                IterIntoConcurrentIter::into_con_iter(p)
            });
        }
        // ---- iterref
        (Src::IterRef(script, hint), Adapt::None) => {
            let b = elems(&script_vals_rev(script));
            let mut once = Some(RefProbe {
                core: ProbeCore::new(script.clone(), *hint),
                backing: b.as_slice(),
            });
            run_generic(case, true, &mut || {
                let p = once.take().expect("iter kinds have one slot");
                IterIntoConcurrentIter::into_con_iter(p)
            });
        }
        (Src::IterRef(script, hint), Adapt::Cloned) => {
            let b = elems(&script_vals_rev(script));
            let mut once = Some(RefProbe {
                core: ProbeCore::new(script.clone(), *hint),
                backing: b.as_slice(),
            });
            run_generic(case, true, &mut || {
                let p = once.take().expect("iter kinds have one slot");
                IterIntoConcurrentIter::into_con_iter(p).cloned()
            });
        }
        (Src::IterRef(script, hint), Adapt::Copied) => {
            let b = celems(&script_vals_rev(script));
            let mut once = Some(RefProbe {
                core: ProbeCore::new(script.clone(), *hint),
                backing: b.as_slice(),
            });
            run_generic(case, true, &mut || {
                let p = once.take().expect("iter kinds have one slot");
                IterIntoConcurrentIter::into_con_iter(p).copied()
            });
        }
    }
}
