//! Case file parser (FORMAT.md section 1).

#[derive(Clone, Copy, Debug, PartialEq, Eq)]
pub enum Entry {
    S(u64),
    N,
    P,
}

#[derive(Clone, Copy, Debug, PartialEq, Eq)]
pub enum Hint {
    Exact,
    Inexact,
    /// an honest inexact hint whose upper bound is attained: `(0, Some(elements left))`
    Upper,
    Unbounded,
    /// std's honest hint of an endless iterator (`n..`, `repeat`, `cycle`): `(usize::MAX, None)`
    MaxNone,
    /// ill-formed: the lower bound exceeds the upper one, `(left + 2, Some(left - 1))` (std: "a buggy iterator may yield … it is not an error")
    Inverted,
    /// inexact; a call of `size_hint` by a thread of the case (the crate makes none) panics once every element was produced
    PanicEnd,
    /// claims `(k - produced, Some(k - produced))` whatever the script holds (a dishonest exact hint)
    Fixed(usize),
}

#[derive(Clone, Debug)]
pub enum Src {
    Slice(Vec<u64>),
    VecRef(Vec<u64>),
    ArrRef(Vec<u64>),
    Vec(Vec<u64>),
    Array(Vec<u64>),
    Range(usize, usize),
    Iter(Vec<Entry>, Hint),
    IterRef(Vec<Entry>, Hint),
}

#[derive(Clone, Copy, Debug, PartialEq, Eq)]
pub enum Adapt {
    None,
    Cloned,
    Copied,
}

#[derive(Clone, Debug)]
pub enum OpKind {
    Next,
    NextV,
    /// n, k (None = all)
    Chunk(usize, Take),
    BufNew(usize),
    BufNext(Take),
    BufDrop,
    ForEach(usize, Option<u64>),
    EnumForEach(usize, Option<u64>),
    Fold(usize),
    Values,
    IdsValues,
    /// `values().nth(k)` / `ids_and_values().nth(k)`: std's default `nth` over the wrappers' `next`
    ValuesNth(usize),
    IdsValuesNth(usize),
    Skip,
    Len,
    HasMore,
    Get(usize),
    Clone(usize),
}

#[derive(Clone, Debug)]
pub struct Op {
    pub slot: usize,
    /// text of the `call` line (tokens joined by one space; `@k ` prefix iff k != 0)
    pub text: String,
    pub kind: OpKind,
}

#[derive(Clone, Copy, Debug)]
pub enum Owner {
    Drop,
    /// None = all
    IntoSeq(Option<usize>),
}

#[derive(Clone, Debug)]
pub struct Case {
    pub id: String,
    pub src: Src,
    pub iters: usize,
    pub adapt: Adapt,
    pub clonepanic: Option<u64>,
    /// the k-th (0-based, per case) logged destruction of an element panics
    pub droppanic: Option<u64>,
    /// elements are a zero-sized type (vec / array / slice only; all payloads are 0)
    pub zst: bool,
    /// elements are a `Copy` type without drop glue (vec / array only; no destruction is observable)
    pub pod: bool,
    /// the consumed vector is built with `spare` elements of unused capacity (vec only)
    pub spare: usize,
    /// threads whose operations run inside a destructor while the thread is unwinding from an unrelated panic
    pub inpanic: Vec<usize>,
    /// `Clone::clone` of an element is a scheduling point of its own
    pub clonepoint: bool,
    pub rawskip: bool,
    /// `dropwait <v> <t>`
    pub dropwait: Option<(u64, usize)>,
    /// `viafrom`: the iterator is built with the `From` conversion (`ConIterOfX::from(source)`) instead of `into_con_iter`
    pub viafrom: bool,
    /// `fat <bytes>`: elements are <bytes> large (128 or 65536; slice, vec, array, iter; `copied()` over a slice)
    pub fat: usize,
    /// `nested`: kind iter: the iterator under test wraps `values()` of an inner concurrent iterator over the probe
    pub nested: bool,
    /// `reenter k`: the k-th call of the wrapped iterator's `next()` queries the concurrent iterator around it
    pub reenter: Option<usize>,
    pub reenter_skip: bool,
    /// `zstiter`: the wrapped iterator is a zero-sized type (kind iter)
    pub zstiter: bool,
    /// `relocate k`: before the k-th operation of thread 0 (single-thread cases) the iterator value is moved to another address
    pub relocate: Option<usize>,
    pub clonefrom: bool,
    pub threads: Vec<Vec<Op>>,
    pub owner: Owner,
    pub sched: Vec<usize>,
    pub frozen: Vec<usize>,
}

pub const NSLOTS: usize = 4;
/// `foreach <n> pull`: stored in the place of the panic position
pub const CLOSURE_PULLS: u64 = u64::MAX - 1;

fn num<T: std::str::FromStr>(s: &str, what: &str, ln: usize) -> Result<T, String> {
    if s.is_empty() || !s.bytes().all(|b| b.is_ascii_digit()) {
        return Err(format!("line {ln}: bad number '{s}' for {what}"));
    }
    s.parse::<T>()
        .map_err(|_| format!("line {ln}: number '{s}' out of range for {what}"))
}

/// How the caller consumes a chunk: everything, the first `k` through `next()`, or one `nth(k)`.
#[derive(Clone, Copy, Debug, PartialEq, Eq)]
pub enum Take {
    All,
    First(usize),
    Nth(usize),
    /// `k` calls of `next()`, then `Iterator::last()` on what is left
    NextLast(usize),
    /// `k` calls of `next()`, then `std::mem::forget` of the chunk iterator (no destructor runs for it)
    NextForget(usize),
    /// consume everything through `Iterator::fold` (what the caller receives is recorded as with `all`)
    Fold,
    /// consume everything through `Iterator::count` (every element is discarded by the iterator's consumer)
    Count,
    /// `k` calls of `next()`, then one call of `nth(j)` on the same chunk iterator (`<k>+nth:<j>`)
    NextNth(usize, usize),
}

fn take_of(s: &str, what: &str, ln: usize) -> Result<Take, String> {
    if s == "fold" {
        Ok(Take::Fold)
    } else if s == "count" {
        Ok(Take::Count)
    } else if s == "all" {
        Ok(Take::All)
    } else if let Some(k) = s.strip_suffix("+last") {
        num::<usize>(k, what, ln).map(Take::NextLast)
    } else if let Some(k) = s.strip_suffix("+forget") {
        num::<usize>(k, what, ln).map(Take::NextForget)
    } else if let Some((k, j)) = s.split_once("+nth:") {
        Ok(Take::NextNth(num::<usize>(k, what, ln)?, num::<usize>(j, what, ln)?))
    } else if let Some(k) = s.strip_prefix("nth:") {
        num::<usize>(k, what, ln).map(Take::Nth)
    } else {
        num::<usize>(s, what, ln).map(Take::First)
    }
}

fn num_or_all(s: &str, what: &str, ln: usize) -> Result<Option<usize>, String> {
    if s == "all" {
        Ok(None)
    } else {
        num::<usize>(s, what, ln).map(Some)
    }
}

fn parse_vals(s: &str, ln: usize) -> Result<Vec<u64>, String> {
    if s.is_empty() {
        return Ok(Vec::new());
    }
    s.split(',').map(|x| num::<u64>(x, "vals", ln)).collect()
}

fn parse_script(s: &str, ln: usize) -> Result<Vec<Entry>, String> {
    if s.is_empty() {
        return Ok(Vec::new());
    }
    s.split(',')
        .map(|x| match x {
            "N" => Ok(Entry::N),
            "P" => Ok(Entry::P),
            _ if x.starts_with('S') => num::<u64>(&x[1..], "script", ln).map(Entry::S),
            _ => Err(format!("line {ln}: bad script entry '{x}'")),
        })
        .collect()
}

fn parse_src(toks: &[&str], ln: usize) -> Result<(Src, usize), String> {
    let kind = *toks
        .first()
        .ok_or_else(|| format!("line {ln}: src without kind"))?;
    let mut kv: Vec<(&str, &str)> = Vec::new();
    for t in &toks[1..] {
        let (k, v) = t
            .split_once('=')
            .ok_or_else(|| format!("line {ln}: expected key=value, got '{t}'"))?;
        kv.push((k, v));
    }
    let get = |k: &str| kv.iter().find(|(a, _)| *a == k).map(|(_, v)| *v);
    let need = |k: &str| get(k).ok_or_else(|| format!("line {ln}: src {kind} needs {k}="));
    let allowed: &[&str] = match kind {
        "slice" | "vecref" | "arrref" => &["vals", "iters"],
        "vec" | "array" => &["vals"],
        "range" => &["start", "stop", "iters"],
        "iter" | "iterref" => &["script", "hint"],
        _ => return Err(format!("line {ln}: unknown src kind '{kind}'")),
    };
    for (k, _) in &kv {
        if !allowed.contains(k) {
            return Err(format!("line {ln}: key '{k}' not allowed for src {kind}"));
        }
    }
    let iters = match get("iters") {
        Some(v) => num::<usize>(v, "iters", ln)?,
        None => 1,
    };
    if iters < 1 || iters > NSLOTS {
        return Err(format!("line {ln}: iters must be in 1..={NSLOTS}"));
    }
    let hint = |ln: usize| -> Result<Hint, String> {
        match need("hint")? {
            "exact" => Ok(Hint::Exact),
            "inexact" => Ok(Hint::Inexact),
            "upper" => Ok(Hint::Upper),
            "unbounded" => Ok(Hint::Unbounded),
            "panicend" => Ok(Hint::PanicEnd),
            "inverted" => Ok(Hint::Inverted),
            "maxnone" => Ok(Hint::MaxNone),
            h if h.starts_with("fixed") => h[5..]
                .parse::<usize>()
                .map(Hint::Fixed)
                .map_err(|_| format!("line {ln}: bad hint '{h}'")),
            h => Err(format!("line {ln}: unknown hint '{h}'")),
        }
    };
    let src = match kind {
        "slice" => Src::Slice(parse_vals(need("vals")?, ln)?),
        "vecref" => Src::VecRef(parse_vals(need("vals")?, ln)?),
        "arrref" => Src::ArrRef(parse_vals(need("vals")?, ln)?),
        "vec" => Src::Vec(parse_vals(need("vals")?, ln)?),
        "array" => Src::Array(parse_vals(need("vals")?, ln)?),
        "range" => Src::Range(
            num::<usize>(need("start")?, "start", ln)?,
            num::<usize>(need("stop")?, "stop", ln)?,
        ),
        "iter" => Src::Iter(parse_script(need("script")?, ln)?, hint(ln)?),
        "iterref" => Src::IterRef(parse_script(need("script")?, ln)?, hint(ln)?),
        _ => unreachable!(),
    };
    if let Src::ArrRef(v) | Src::Array(v) = &src {
        if v.len() > 8 && v.len() != 288 {
            return Err(format!("line {ln}: arrays are limited to N <= 8"));
        }
    }
    Ok((src, iters))
}

fn parse_panic_opt(t: &str, ln: usize) -> Result<u64, String> {
    match t.strip_prefix("panic=") {
        Some(v) => num::<u64>(v, "panic=", ln),
        None => Err(format!("line {ln}: expected panic=<j>, got '{t}'")),
    }
}

fn parse_op(text: &str, ln: usize) -> Result<Op, String> {
    let mut toks: Vec<&str> = text.split_whitespace().collect();
    if toks.is_empty() {
        return Err(format!("line {ln}: empty op"));
    }
    let mut slot = 0usize;
    if let Some(k) = toks[0].strip_prefix('@') {
        slot = num::<usize>(k, "slot", ln)?;
        if slot >= NSLOTS {
            return Err(format!("line {ln}: slot {slot} out of range"));
        }
        toks.remove(0);
        if toks.is_empty() {
            return Err(format!("line {ln}: op missing after @{slot}"));
        }
    }
    let argc = |n: usize| -> Result<(), String> {
        if toks.len() == n + 1 {
            Ok(())
        } else {
            Err(format!(
                "line {ln}: op '{}' takes {n} argument(s)",
                toks[0]
            ))
        }
    };
    let kind = match toks[0] {
        "next" => {
            argc(0)?;
            OpKind::Next
        }
        "nextv" => {
            argc(0)?;
            OpKind::NextV
        }
        "chunk" => {
            argc(2)?;
            OpKind::Chunk(num(toks[1], "n", ln)?, take_of(toks[2], "k", ln)?)
        }
        "bufnew" => {
            argc(1)?;
            OpKind::BufNew(num(toks[1], "n", ln)?)
        }
        "bufnext" => {
            argc(1)?;
            OpKind::BufNext(take_of(toks[1], "k", ln)?)
        }
        "bufdrop" => {
            argc(0)?;
            OpKind::BufDrop
        }
        "foreach" | "enumforeach" => {
            if toks.len() != 2 && toks.len() != 3 {
                return Err(format!("line {ln}: '{}' takes <n> [panic=<j>]", toks[0]));
            }
            let n = num(toks[1], "n", ln)?;
            let p = match toks.get(2) {
                // `pull`: the function itself pulls one more element from the same iterator after each call
                Some(t) if *t == "pull" => Some(CLOSURE_PULLS),
                Some(t) => Some(parse_panic_opt(t, ln)?),
                None => None,
            };
            if toks[0] == "foreach" {
                OpKind::ForEach(n, p)
            } else {
                OpKind::EnumForEach(n, p)
            }
        }
        "fold" => {
            argc(1)?;
            OpKind::Fold(num(toks[1], "n", ln)?)
        }
        "values" => {
            argc(0)?;
            OpKind::Values
        }
        "idsvalues" => {
            argc(0)?;
            OpKind::IdsValues
        }
        "vnth" => {
            argc(1)?;
            OpKind::ValuesNth(num(toks[1], "k", ln)?)
        }
        "ivnth" => {
            argc(1)?;
            OpKind::IdsValuesNth(num(toks[1], "k", ln)?)
        }
        "skip" => {
            argc(0)?;
            OpKind::Skip
        }
        "len" => {
            argc(0)?;
            OpKind::Len
        }
        "hasmore" => {
            argc(0)?;
            OpKind::HasMore
        }
        "get" => {
            argc(1)?;
            OpKind::Get(num(toks[1], "i", ln)?)
        }
        "clone" => {
            argc(1)?;
            let j: usize = num(toks[1], "j", ln)?;
            if j >= NSLOTS {
                return Err(format!("line {ln}: clone target {j} out of range"));
            }
            OpKind::Clone(j)
        }
        o => return Err(format!("line {ln}: unknown op '{o}'")),
    };
    let mut t = String::new();
    if slot != 0 {
        t.push_str(&format!("@{slot} "));
    }
    t.push_str(&toks.join(" "));
    Ok(Op {
        slot,
        text: t,
        kind,
    })
}

#[derive(Default)]
struct Partial {
    id: String,
    start_line: usize,
    src: Option<(Src, usize)>,
    adapt: Option<Adapt>,
    clonepanic: Option<u64>,
    droppanic: Option<u64>,
    zst: bool,
    pod: bool,
    spare: usize,
    inpanic: Vec<usize>,
    clonepoint: bool,
    rawskip: bool,
    dropwait: Option<(u64, usize)>,
    viafrom: bool,
    fat: usize,
    nested: bool,
    reenter: Option<usize>,
    reenter_skip: bool,
    zstiter: bool,
    relocate: Option<usize>,
    clonefrom: bool,
    threads: Vec<Vec<Op>>,
    owner: Option<Owner>,
    sched: Option<Vec<usize>>,
    frozen: Option<Vec<usize>>,
}

fn finish(p: Partial) -> Result<Case, String> {
    let ln = p.start_line;
    let id = p.id;
    let (src, iters) = p
        .src
        .ok_or_else(|| format!("case {id} (line {ln}): missing src line"))?;
    let adapt = p.adapt.unwrap_or(Adapt::None);
    if adapt != Adapt::None
        && !matches!(
            src,
            Src::Slice(_) | Src::VecRef(_) | Src::ArrRef(_) | Src::IterRef(..)
        )
    {
        return Err(format!(
            "case {id}: adaptors apply to slice, vecref, arrref, iterref only"
        ));
    }
    let clonable = adapt == Adapt::None
        && matches!(
            src,
            Src::Slice(_) | Src::VecRef(_) | Src::ArrRef(_) | Src::Range(..)
        );
    let mut targets = [false; NSLOTS];
    for t in targets.iter_mut().take(iters) {
        *t = true;
    }
    for ops in &p.threads {
        for op in ops {
            if let OpKind::Clone(j) = op.kind {
                if !clonable {
                    return Err(format!("case {id}: clone is not available for this kind"));
                }
                if targets[j] {
                    return Err(format!(
                        "case {id}: slot {j} is filled more than once (iters=/clone)"
                    ));
                }
                targets[j] = true;
            }
        }
    }
    Ok(Case {
        id,
        src,
        iters,
        adapt,
        clonepanic: p.clonepanic,
        droppanic: p.droppanic,
        zst: p.zst,
        pod: p.pod,
        inpanic: p.inpanic,
        clonepoint: p.clonepoint,
        rawskip: p.rawskip,
        dropwait: p.dropwait,
        viafrom: p.viafrom,
        fat: p.fat,
        nested: p.nested,
        reenter: p.reenter,
        reenter_skip: p.reenter_skip,
        zstiter: p.zstiter,
        relocate: p.relocate,
        clonefrom: p.clonefrom,
        spare: p.spare,
        threads: p.threads,
        owner: p.owner.unwrap_or(Owner::Drop),
        sched: p.sched.unwrap_or_default(),
        frozen: p.frozen.unwrap_or_default(),
    })
}

pub fn parse_cases(text: &str) -> Result<Vec<Case>, String> {
    let mut cases = Vec::new();
    let mut cur: Option<Partial> = None;
    for (i, raw) in text.lines().enumerate() {
        let ln = i + 1;
        let line = match raw.find('#') {
            Some(p) => &raw[..p],
            None => raw,
        };
        let line = line.trim();
        if line.is_empty() {
            continue;
        }
        let toks: Vec<&str> = line.split_whitespace().collect();
        let key = toks[0];
        if key == "case" {
            if cur.is_some() {
                return Err(format!("line {ln}: 'case' before 'end' of the previous case"));
            }
            let id = *toks
                .get(1)
                .ok_or_else(|| format!("line {ln}: case without id"))?;
            if !id
                .bytes()
                .all(|b| b.is_ascii_alphanumeric() || b == b'_' || b == b'.' || b == b'-')
            {
                return Err(format!("line {ln}: bad case id '{id}'"));
            }
            cur = Some(Partial {
                id: id.to_string(),
                start_line: ln,
                ..Default::default()
            });
            continue;
        }
        let p = cur
            .as_mut()
            .ok_or_else(|| format!("line {ln}: '{key}' outside of a case"))?;
        match key {
            "src" => {
                if p.src.is_some() {
                    return Err(format!("line {ln}: duplicate src"));
                }
                p.src = Some(parse_src(&toks[1..], ln)?);
            }
            "adapt" => {
                let a = match toks.get(1).copied() {
                    Some("none") => Adapt::None,
                    Some("cloned") => Adapt::Cloned,
                    Some("copied") => Adapt::Copied,
                    _ => return Err(format!("line {ln}: adapt none|cloned|copied")),
                };
                p.adapt = Some(a);
            }
            "mode" => match toks.get(1).copied() {
                Some("release") | Some("debug") => {}
                _ => return Err(format!("line {ln}: mode release|debug")),
            },
            "clonepanic" => {
                let k = toks
                    .get(1)
                    .ok_or_else(|| format!("line {ln}: clonepanic <k>"))?;
                p.clonepanic = Some(num::<u64>(k, "clonepanic", ln)?);
            }
            "zst" => {
                p.zst = true;
            }
            "pod" => {
                p.pod = true;
            }
            "clonepoint" => {
                p.clonepoint = true;
            }
            "rawskip" => {
                p.rawskip = true;
            }
            "dropwait" => {
                if toks.len() != 3 {
                    return Err(format!("line {ln}: dropwait <v> <t>"));
                }
                p.dropwait = Some((num::<u64>(toks[1], "dropwait value", ln)?, num::<usize>(toks[2], "dropwait thread", ln)?));
            }
            "viafrom" => {
                p.viafrom = true;
            }
            "fat" => {
                let k = toks
                    .get(1)
                    .ok_or_else(|| format!("line {ln}: fat <bytes>"))?;
                p.fat = num::<usize>(k, "fat", ln)?;
                if p.fat != 128 && p.fat != 2048 && p.fat != 65536 {
                    return Err(format!("line {ln}: fat 128 | fat 2048 | fat 65536"));
                }
            }
            "nested" => {
                p.nested = true;
            }
            "reenter" => {
                let k = toks
                    .get(1)
                    .ok_or_else(|| format!("line {ln}: reenter <k>"))?;
                p.reenter = Some(num::<usize>(k, "reenter", ln)?);
                p.reenter_skip = toks.get(2).copied() == Some("skip");
            }
            "zstiter" => {
                p.zstiter = true;
            }
            "relocate" => {
                let k = toks
                    .get(1)
                    .ok_or_else(|| format!("line {ln}: relocate <k>"))?;
                p.relocate = Some(num::<usize>(k, "relocate", ln)?);
            }
            "clonefrom" => {
                p.clonefrom = true;
            }
            "inpanic" => {
                for t in &toks[1..] {
                    p.inpanic.push(num::<usize>(t, "inpanic thread", ln)?);
                }
            }
            "spare" => {
                let k = toks
                    .get(1)
                    .ok_or_else(|| format!("line {ln}: spare <k>"))?;
                p.spare = num::<usize>(k, "spare", ln)?;
            }
            "droppanic" => {
                let k = toks
                    .get(1)
                    .ok_or_else(|| format!("line {ln}: droppanic <k>"))?;
                p.droppanic = Some(num::<u64>(k, "droppanic", ln)?);
            }
            "thread" => {
                let rest = line["thread".len()..].trim_start();
                let (t, ops) = rest
                    .split_once(':')
                    .ok_or_else(|| format!("line {ln}: thread <t>: ops"))?;
                let t: usize = num(t.trim(), "thread id", ln)?;
                if t != p.threads.len() {
                    return Err(format!(
                        "line {ln}: thread ids must be consecutive (expected {})",
                        p.threads.len()
                    ));
                }
                let mut v = Vec::new();
                if !ops.trim().is_empty() {
                    for o in ops.split(';') {
                        v.push(parse_op(o, ln)?);
                    }
                }
                p.threads.push(v);
            }
            "owner" => {
                let o = match (toks.get(1).copied(), toks.len()) {
                    (Some("drop"), 2) => Owner::Drop,
                    (Some("intoseq"), 3) => Owner::IntoSeq(num_or_all(toks[2], "k", ln)?),
                    _ => return Err(format!("line {ln}: owner drop | intoseq <k>|all")),
                };
                p.owner = Some(o);
            }
            "sched" => {
                let v: Result<Vec<usize>, String> =
                    toks[1..].iter().map(|t| num(t, "tid", ln)).collect();
                p.sched = Some(v?);
            }
            "frozen" => {
                let v: Result<Vec<usize>, String> =
                    toks[1..].iter().map(|t| num(t, "tid", ln)).collect();
                p.frozen = Some(v?);
            }
            "end" => {
                let done = cur.take().expect("checked above");
                cases.push(finish(done)?);
            }
            _ => return Err(format!("line {ln}: unknown line '{key}'")),
        }
    }
    if let Some(p) = cur {
        return Err(format!("case {}: missing 'end'", p.id));
    }
    Ok(cases)
}
